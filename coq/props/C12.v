(* C12 — Saving session state to the filesystem store is crash-atomic.

   Crash = death of the process between or inside the system calls of a save (the kernel's
   view of the directory survives; no power loss, no fsync is claimed).  The record format is
   abstract: 'valid b' = Persister.Deserialize accepts b.  What is assumed about it appears as
   hypotheses of the theorems (valid old, valid new; valid [] = false for the refutation) and is
   checked on every generated record by the harness. *)
From Vise Require Import Bytes Errors Consts FsCrash FsCrashProofs.
Local Open Scope N_scope.

(* At EVERY crash state of the operation list that Put performs today — before/after each
   operation and after every partial transfer of the write, for all byte strings — the session's
   record is the complete previous one or the complete new one, and no other file has changed
   (tmp, the temp file's name, is the only other name that is touched). *)
Theorem C12_save_atomic : forall fs p old new tmp fs',
  alookup tmp fs = None -> tmp <> p -> alookup p fs = Some old ->
  In fs' (crash_states fs (put_ops tmp p new)) ->
  (alookup p fs' = Some old \/ alookup p fs' = Some new)
  /\ (forall q, q <> p -> q <> tmp -> alookup q fs' = alookup q fs).
Proof. exact put_atomic. Qed.

(* the same for any split of the value over several write(2) calls *)
Theorem C12_save_atomic_chunked : forall fs p old chunks tmp fs',
  alookup tmp fs = None -> tmp <> p -> alookup p fs = Some old ->
  In fs' (crash_states fs (put_ops_chunked tmp p chunks)) ->
  (alookup p fs' = Some old \/ alookup p fs' = Some (List.concat chunks))
  /\ (forall q, q <> p -> q <> tmp -> alookup q fs' = alookup q fs).
Proof. exact put_atomic_chunked. Qed.

(* first save of a session: the record is absent or complete *)
Theorem C12_first_save : forall fs p new tmp fs',
  alookup tmp fs = None -> tmp <> p -> alookup p fs = None ->
  In fs' (crash_states fs (put_ops tmp p new)) ->
  (alookup p fs' = None \/ alookup p fs' = Some new)
  /\ (forall q, q <> p -> q <> tmp -> alookup q fs' = alookup q fs).
Proof. exact put_first_save. Qed.

(* a later start (Persister.Load + ensurePersist) continues the session from the previous or
   from the new record; it never silently starts a new session *)
Theorem C12_recover_never_fresh : forall (valid : bytes -> bool) fs p alt old new tmp fs',
  alookup tmp fs = None -> tmp <> p -> alookup p fs = Some old ->
  valid old = true -> valid new = true ->
  In fs' (crash_states fs (put_ops tmp p new)) ->
  recover valid fs' p alt = Continued old \/ recover valid fs' p alt = Continued new.
Proof. exact recover_never_fresh. Qed.

(* a completed save leaves the new record and no temp file; a failed save (error path of
   writeFileAtomic) changes nothing at any crash state and leaves no temp file if the process
   survives *)
Theorem C12_completed_save : forall fs p tmp chunks,
  tmp <> p ->
  let fs' := run_ops fs (put_ops_chunked tmp p chunks) in
  alookup p fs' = Some (List.concat chunks) /\ alookup tmp fs' = None
  /\ (forall q, q <> p -> q <> tmp -> alookup q fs' = alookup q fs).
Proof. exact put_completes. Qed.

Theorem C12_failed_save_keeps_everything : forall fs tmp written chmodded fs',
  In fs' (crash_states fs (put_ops_failed tmp written chmodded)) ->
  forall q, q <> tmp -> alookup q fs' = alookup q fs.
Proof. exact put_failed_keeps. Qed.

Theorem C12_failed_save_no_garbage : forall fs tmp written chmodded,
  alookup tmp (run_ops fs (put_ops_failed tmp written chmodded)) = None.
Proof. exact put_failed_no_garbage. Qed.

(* A temp file left behind by a crash is never read as a record:
   - its name differs from the record name of every key of every data type (type byte <> 0xfe);
   - it differs from the legacy (type-less) name of every session key that does not itself
     start with ".tmp-"  [a session key that does is outside this theorem: Get's legacy-name
     fallback then reads the temp file — see the integration note];
   - hence every other session recovers exactly as before the crash;
   - and the directory scan of Dump lists the same keys with or without it. *)
Theorem C12_leftover_tmp_harmless :
  (forall typ sk suffix, typ < 256 -> typ <> 254 -> record_name typ sk <> tmp_name suffix)
  /\ (forall typ sk suffix, is_prefix tmp_prefix sk = false -> alt_name typ sk <> tmp_name suffix)
  /\ (forall (valid : bytes -> bool) fs p new tmp fs' q altq,
        tmp <> p -> In fs' (crash_states fs (put_ops tmp p new)) ->
        q <> p -> q <> tmp -> altq <> p -> altq <> tmp ->
        recover valid fs' q altq = recover valid fs q altq)
  /\ (forall typ sidp pfx l1 suffix l2,
        typ < 208 -> (forall n, In n l1 -> bytes_leb n (tmp_name suffix) = true) ->
        dump_keys typ sidp pfx (l1 ++ tmp_name suffix :: l2) = dump_keys typ sidp pfx (l1 ++ l2)).
Proof.
  exact (conj record_name_not_tmp (conj alt_name_not_tmp (conj recover_other_session dump_ignores_tmp))).
Qed.

(* every sampled crash point the harness materialises is one of the enumerated crash states *)
Theorem C12_sampled_points_are_crash_states : forall ops fs i k,
  In (crash_state_at fs ops i k) (crash_states fs ops).
Proof. exact crash_state_at_in. Qed.

(* Why the check would catch a regression: the operation list BEFORE the repair
   (open O_TRUNC, write, close) has, for every store, record and new value, a crash state in which
   the record is empty; the later start then begins a fresh session and overwrites the record.
   Every prefix of the new value is likewise the record's content at some crash state. *)
Theorem C12_old_oplist_refuted : forall (valid : bytes -> bool) fs p alt new freshrec tmp',
  valid [] = false -> tmp' <> p ->
  (exists fs', In fs' (crash_states fs (put_ops_old p new))
     /\ alookup p fs' = Some [] /\ recover valid fs' p alt = FreshStarted)
  /\ (exists fs', In fs' (crash_states fs (put_ops_old p new))
     /\ recover valid fs' p alt = FreshStarted
     /\ alookup p (recover_store valid freshrec tmp' fs' p alt) = Some freshrec)
  /\ (forall pre, In pre (prefixes new) -> In (aset p pre fs) (crash_states fs (put_ops_old p new))).
Proof.
  intros valid fs p alt new freshrec tmp' Hv Hne.
  exact (conj (old_oplist_empty_record valid fs p alt new Hv)
        (conj (old_oplist_loses_session valid fs p alt new freshrec tmp' Hv Hne)
              (old_oplist_partial_record fs p new))).
Qed.

Theorem C12_old_oplist_not_atomic :
  ~ (forall fs p old new fs', alookup p fs = Some old ->
       In fs' (crash_states fs (put_ops_old p new)) ->
       alookup p fs' = Some old \/ alookup p fs' = Some new).
Proof. exact old_oplist_not_atomic. Qed.

(* The operations OpenWrite / OpenCreate / WriteAt exist in the model only so that a deviating
   observed system-call sequence can be given crash states.  The simplest such deviation —
   overwriting an equally long record in place — is not atomic: *)
Theorem C12_inplace_overwrite_refuted :
  exists fs p old new fs',
    alookup p fs = Some old /\ len old = len new
    /\ In fs' (crash_states fs [OpenWrite p; WriteAt p 0 new; Close p])
    /\ alookup p fs' = Some (take 1 new ++ drop 1 old)
    /\ alookup p fs' <> Some old /\ alookup p fs' <> Some new.
Proof. exact inplace_overwrite_not_atomic. Qed.

(* non-vacuity: a store with two sessions; saving a 3-byte record for "@a" has 10 crash states
   (4 of them inside the write), the hypotheses of C12_save_atomic hold, the record takes both
   values among them, and "@b" is the same in all of them *)
Example C12_nonvacuous :
  let fs := [(s2b "@a", s2b "old"); (s2b "@b", s2b "other")] in
  let tmp := tmp_name (s2b "1") in
  let cs := crash_states fs (put_ops tmp (s2b "@a") (s2b "new")) in
  alookup tmp fs = None /\ len cs = 10
  /\ map (alookup (s2b "@a")) cs = List.repeat (Some (s2b "old")) 9 ++ [Some (s2b "new")]
  /\ forallb (fun fs' => match alookup (s2b "@b") fs' with Some b => bytes_eqb b (s2b "other") | None => false end) cs = true
  /\ map (alookup tmp) [nth 1 cs []; nth 4 cs []; nth 9 cs []] = [Some []; Some (s2b "ne"); None].
Proof. vm_compute. repeat split. Qed.

Print Assumptions C12_save_atomic.
Print Assumptions C12_save_atomic_chunked.
Print Assumptions C12_first_save.
Print Assumptions C12_recover_never_fresh.
Print Assumptions C12_completed_save.
Print Assumptions C12_failed_save_keeps_everything.
Print Assumptions C12_failed_save_no_garbage.
Print Assumptions C12_leftover_tmp_harmless.
Print Assumptions C12_sampled_points_are_crash_states.
Print Assumptions C12_old_oplist_refuted.
Print Assumptions C12_old_oplist_not_atomic.
Print Assumptions C12_inplace_overwrite_refuted.
