(* C04 (component level) — Navigation stack and page index follow the documented move table:
   one call of vm/input.go:applyTarget (and vm/runner.go:Rewind, state.Down/Up/Next/Previous)
   against the table of doc/texinfo/navigation.texi, for all targets, states and caches.
   The engine-level history theorem (moves coming from MOVE, INCMP, CATCH) is built on these. *)
From Vise Require Import Bytes Errors Consts CacheModel StateModel NavModel NavProofs.
Local Open Scope N_scope.

(* Full statement (false today, see _refuted_up_at_entry):
     forall t st ca st' ca' sym, 1 <= cache_levels ca ->
       apply_target t st ca = (st', ca', sym, SOk) ->
       nav_spec (pos_of st) t = Some (pos_of st') /\ ...
   The guard up_at_entry excludes exactly: target "_" while the stack holds the entry node only. *)
Theorem C04_apply_target_refines_nav_spec_partial : forall t st ca st' ca' sym,
  1 <= cache_levels ca ->
  up_at_entry (pos_of st) t = false ->
  apply_target t st ca = (st', ca', sym, SOk) ->
  (* the new position is the documented one *)
  nav_spec (pos_of st) t = Some (pos_of st')
  (* the returned symbol is the node now current *)
  /\ sym = where_sym st'
  (* code, flags, bit size, language and input are untouched *)
  /\ st' = set_path_idx st (s_path st') (s_idx st')
  (* the cache moved as many levels as the stack *)
  /\ (nav_inv st ca -> cache_levels ca' + len (s_path st) = cache_levels ca + len (s_path st')).
Proof. exact apply_refines_spec_partial. Qed.

(* "_" at the entry node: the text says it fails; applyTarget returns nil, the stack is empty *)
Theorem C04_apply_target_refines_nav_spec_refuted_up_at_entry :
  exists t st ca st' ca' sym,
    1 <= cache_levels ca /\ nav_inv st ca /\ up_at_entry (pos_of st) t = true
    /\ apply_target t st ca = (st', ca', sym, SOk) /\ nav_spec (pos_of st) t = None
    /\ s_path st' = [].
Proof. exact refines_spec_refuted_up_at_entry. Qed.

(* Unguarded: what a successful call does, exactly.  nav_code is nav_spec with the one row
   ("_" on a one-element stack gives the empty stack, index 0) changed. *)
Theorem C04_apply_target_exact : forall t st ca st' ca' sym,
  1 <= cache_levels ca ->
  apply_target t st ca = (st', ca', sym, SOk) ->
  nav_code (pos_of st) t = Some (pos_of st')
  /\ sym = where_sym st'
  /\ st' = set_path_idx st (s_path st') (s_idx st')
  /\ ca' = (if valid_sym_b t then cache_push ca
            else pops (List.length (s_path st) - List.length (s_path st')) ca).
Proof. exact apply_exact_lemma. Qed.

(* cache depth = stack depth + 1 is an invariant of every call, whatever its outcome *)
Theorem C04_levels_lockstep : forall t st ca st' ca' sym r,
  nav_inv st ca -> apply_target t st ca = (st', ca', sym, r) ->
  nav_inv st' ca' /\ cache_levels ca' + len (s_path st) = cache_levels ca + len (s_path st').
Proof. exact apply_levels. Qed.

(* ... and so are the bounds: stack length <= MaxLevel + 1, index < 2^16 *)
Theorem C04_wf_preserved : forall t st ca st' ca' sym r,
  wf_nav st ca -> apply_target t st ca = (st', ca', sym, r) -> wf_nav st' ca'.
Proof. exact apply_wf. Qed.

Theorem C04_failures_exact : forall st ca,
  1 <= cache_levels ca ->
  (* every call that fails (error or panic) leaves state and cache as they were *)
  (forall t st' ca' sym r, apply_target t st ca = (st', ca', sym, r) -> r <> SOk -> st' = st /\ ca' = ca)
  (* "<" on the first page: IndexError *)
  /\ (s_path st <> [] -> s_idx st = 0 ->
      apply_target t_prev st ca = (st, ca, where_sym st, SErr EIndex (Some msg_index)))
  (* no entry node yet: "_", "<", ">" fail *)
  /\ (s_path st = [] ->
      apply_target t_up st ca = (st, ca, [], SErr EGen None)
      /\ apply_target t_prev st ca = (st, ca, [], SErr EGen None)
      /\ apply_target t_next st ca = (st, ca, [], SErr EGen None))
  (* "_" AT the entry node does not fail: nil error, empty stack, symbol "" *)
  /\ (forall e, s_path st = [e] ->
      exists ca', cache_pop ca = Ok ca' /\ apply_target t_up st ca = (set_path_idx st [] 0, ca', [], SOk))
  (* malformed target *)
  /\ (forall t, valid_target_b t = false -> apply_target t st ca = (st, ca, where_sym st, SErr EGen None))
  (* depth limit *)
  /\ (forall t, valid_sym_b t = true -> MaxLevel + 1 <= len (s_path st) ->
      apply_target t st ca = (st, ca, t, SErr EGen None))
  (* a move to the node the session is already at is refused *)
  /\ (forall t, valid_sym_b t = true -> where_sym st = t ->
      apply_target t st ca = (st, ca, t, SErr EGen None))
  (* ">" never fails once there is a node; the index wraps at 2^16 *)
  /\ (s_path st <> [] ->
      apply_target t_next st ca = (set_path_idx st (s_path st) (w16 (s_idx st + 1)), ca, where_sym st, SOk)).
Proof. exact failures_exact_lemma. Qed.

(* applyTarget never panics, for any target, state and cache (no well-formedness needed):
   State.Down's "maxlevel" and "down into same node" panics are both behind applyTarget's own
   checks (depth limit; target = current node, since repair b32c1a0); Pop and Rewind do not panic *)
Theorem C04_no_panic : forall t st ca, is_spanic (snd (apply_target t st ca)) = false.
Proof. exact apply_never_panics. Qed.

(* History form.  nav_run applies a list of targets one after the other (state and cache as
   each call left them) and logs those that returned nil.  Full statement (false today):
     nav_fold nav_spec (pos_of st) log = Some (pos_of st2)   for every list of targets. *)
Theorem C04_fold_partial : forall ts st ca st2 ca2 log,
  1 <= cache_levels ca -> nav_run st ca ts = (st2, ca2, log) ->
  up_free (pos_of st) log = true ->
  nav_fold nav_spec (pos_of st) log = Some (pos_of st2).
Proof. exact nav_run_spec_partial. Qed.

Theorem C04_fold_refuted_up_at_entry :
  exists ts st ca st2 ca2 log,
    wf_nav st ca /\ nav_run st ca ts = (st2, ca2, log) /\ up_free (pos_of st) log = false
    /\ nav_fold nav_spec (pos_of st) log = None.
Proof. exact fold_refuted_up_at_entry. Qed.

Theorem C04_fold_code : forall ts st ca st2 ca2 log,
  1 <= cache_levels ca -> nav_run st ca ts = (st2, ca2, log) ->
  nav_fold nav_code (pos_of st) log = Some (pos_of st2).
Proof. exact nav_run_code_lemma. Qed.

Theorem C04_fold_wf : forall ts st ca st2 ca2 log,
  wf_nav st ca -> nav_run st ca ts = (st2, ca2, log) -> wf_nav st2 ca2.
Proof. exact nav_run_wf. Qed.

(* the pattern sources the hand-written matchers transliterate, and what the matchers accept *)
Theorem C04_regex_pinned :
  input_regex_src = "^\+?[a-zA-Z0-9].*$"%string
  /\ ctrl_regex_src = "^[><_^.]$"%string
  /\ sym_regex_src = "^[a-zA-Z0-9][a-zA-Z0-9_]+$"%string.
Proof. exact regex_pinned_lemma. Qed.

Theorem C04_matchers_char : forall s,
  (valid_input_b s = true <->
     exists c r, (s = c :: r \/ s = 43 :: c :: r) /\ is_alnum c = true /\ Forall (fun x => x <> 10) r)
  /\ (valid_sym_b s = true <->
     s = catch_sym \/
     exists c r, s = c :: r /\ r <> [] /\ is_alnum c = true /\ Forall (fun x => is_symchar x = true) r)
  /\ (valid_ctrl_b s = true <-> s = t_up \/ s = t_next \/ s = t_prev \/ s = t_top \/ s = t_same)
  /\ (valid_target_b s = true <-> valid_sym_b s = true \/ valid_ctrl_b s = true)
  /\ (valid_sym_b s = true -> valid_ctrl_b s = false).
Proof. exact matchers_char_lemma. Qed.

(* non-vacuity: the example table of navigation.texi, followed by a failing "<", a descent into
   the current node (refused), a malformed target and a second rewind *)
Example C04_nonvacuous :
  let ts := [s2b "foo"; s2b "bar"; s2b "baz"; t_next; t_next; t_prev; t_same; t_up; s2b "baz"; t_top;
             t_prev; s2b "foo"; s2b "x"; t_next; t_top] in
  let '(st2, ca2, log) := nav_run (new_state 0) (new_cache 0) ts in
  wf_nav (new_state 0) (new_cache 0)
  /\ log = [s2b "foo"; s2b "bar"; s2b "baz"; t_next; t_next; t_prev; t_same; t_up; s2b "baz"; t_top; t_next; t_top]
  /\ up_free (pos_of (new_state 0)) log = true
  /\ pos_of st2 = ([s2b "foo"], 1) /\ cache_levels ca2 = 2
  /\ nav_fold nav_spec ([], 0) log = Some ([s2b "foo"], 1)
  /\ nav_fold nav_spec ([], 0) (firstn 9 log) = Some ([s2b "foo"; s2b "bar"; s2b "baz"], 0).
Proof. vm_compute. repeat split; discriminate. Qed.

Print Assumptions C04_apply_target_refines_nav_spec_partial.
Print Assumptions C04_apply_target_refines_nav_spec_refuted_up_at_entry.
Print Assumptions C04_apply_target_exact.
Print Assumptions C04_levels_lockstep.
Print Assumptions C04_wf_preserved.
Print Assumptions C04_failures_exact.
Print Assumptions C04_no_panic.
Print Assumptions C04_fold_partial.
Print Assumptions C04_fold_refuted_up_at_entry.
Print Assumptions C04_fold_code.
Print Assumptions C04_fold_wf.
Print Assumptions C04_regex_pinned.
Print Assumptions C04_matchers_char.
