(* C06 (interim, handler level) — Signal flags steer control flow; the reserved ones are tamper-proof. *)
From Vise Require Import Bytes Errors Consts Codec CacheModel StateModel NavModel RenderModel VmModel VmProofs.
Local Open Scope N_scope.

(* whatever FlagSet / FlagReset lists external code returns (any numbers at all), flags 0..5 keep
   their value and nothing but the flag field changes *)
Theorem C06_external_cannot_touch_reserved : forall fl set st st',
  apply_flags set fl st = Ok st' ->
  (forall i, i <= nonwriteable_flag_threshold -> getf st' i = getf st i) /\ same_but_flags st st'.
Proof. exact apply_flags_reserved. Qed.

(* a whole LOAD/RELOAD refresh: the only reserved flag that can change is LOADFAIL, set by the VM
   itself when the function fails *)
Theorem C06_refresh_reserved : forall rs lang key v v' content s,
  refresh rs lang key v = (v', content, s) ->
  forall i, i <= nonwriteable_flag_threshold ->
    getf (v_st v') i = getf (v_st v) i \/ (i = FLAG_LOADFAIL /\ exists m, s = SErr EExternal m).
Proof. exact refresh_reserved. Qed.

Theorem C06_catch_does_nothing_without_match : forall rs sym sig mode b v,
  match_flag (v_st v) sig mode = Ok false -> run_catch rs sym sig mode b v = (v, b, SOk).
Proof. exact run_catch_no_match. Qed.

Theorem C06_croak_does_nothing_without_match : forall sep sig mode b v,
  match_flag (v_st v) sig mode = Ok false -> run_croak sep sig mode b v = (v, b, SOk).
Proof. exact run_croak_no_match. Qed.

Theorem C06_croak_abandons_code : forall sep sig mode b v,
  match_flag (v_st v) sig mode = Ok true ->
  exists v', run_croak sep sig mode b v = (v', [], SOk) /\ v_st v' = v_st v /\ v_ca v' = cache_reset (v_ca v).
Proof. exact run_croak_match. Qed.

(* while TERMINATE is set no instruction runs: for every code, machine and fuel *)
Theorem C06_terminate_blocks : forall fuel rs sep lang b v,
  getf (v_st v) FLAG_TERMINATE = true -> run (S fuel) rs sep lang b v = (v, [], SOk).
Proof. exact run_terminate_blocks. Qed.

Print Assumptions C06_external_cannot_touch_reserved.
Print Assumptions C06_refresh_reserved.
Print Assumptions C06_catch_does_nothing_without_match.
Print Assumptions C06_croak_does_nothing_without_match.
Print Assumptions C06_croak_abandons_code.
Print Assumptions C06_terminate_blocks.
