(* C06 (flag field) — Signal flags steer control flow: what CATCH and CROAK test is a SET OF FLAG INDICES.

   Full statement (state/flag.go, state/state.go: NewState, SetFlag, ResetFlag, GetFlag, MatchFlag; model:
   StateModel.new_state / set_flag / reset_flag / get_flag / match_flag, validated against the code by
   corr/FlagCorr.v):

   For every flag count with count + 8 <= 2040 (a bit field of at most 255 bytes) and EVERY sequence of
   SetFlag / ResetFlag / GetFlag / MatchFlag calls with arbitrary indices i : N on NewState(count):
     - flags 0 .. count+7 exist; a call on any other index panics and changes nothing;
     - a flag reads as set exactly when it was set and not reset since (the reference fl_ref_step over
       a list of indices, which does not use the model);
     - SetFlag / ResetFlag answer "the bit changed";  MatchFlag(i, mode) = (mode == GetFlag(i));
     - an operation on i changes no other flag and nothing else of the state;
     - the exported bytes State.Flags have (count + 15) / 8 bytes and bit i (least significant bit of
       byte i/8 first) is set exactly when i is in the set.
   It is FALSE of the code beyond that range: NewState's byte size is a uint8, from count = 2033 on it wraps
   and existing flags panic on the slice index (C06_flag_field_refuted_bytesize_wrap; finding
   K-C08-flagcount), hence the guard count + 8 <= 2040 = FlagCorr.fl_in_scope.

   Lemmas: proofs/FlagFieldProofs.v. *)
From Vise Require Import Bytes Errors Consts StateModel CorrBase FlagCorr FlagFieldProofs.
Local Open Scope N_scope.

(* ---- the flag field is a set: all counts in range, all operation sequences ---- *)

(* answers: fl_model_answers = what fl_model_step returns in sequence from the given state,
   fl_ref_answers = what the set-of-indices reference expects (FPanic outside 0 .. count+7) *)
Theorem C06_flag_field_is_a_set : forall count ops, count + 8 <= 2040 ->
  fl_model_answers (new_state count) ops = fl_ref_answers count [] ops.
Proof. exact flag_field_is_a_set. Qed.

(* the exported bytes after any sequence *)
Theorem C06_flag_field_is_a_set_bytes : forall count ops, count + 8 <= 2040 ->
  len (flag_bytes (s_flags (fl_model_final (new_state count) ops))) = (count + 15) / 8 /\
  forall i, byte_bit (flag_bytes (s_flags (fl_model_final (new_state count) ops))) i
            = mem_n i (fl_ref_final count [] ops).
Proof. exact flag_field_is_a_set_bytes. Qed.

(* in terms of FlagCorr's own runs, for arbitrary observed values: the model's verdict on the observed
   answers is the reference's verdict, and the final state holds the reference's final set *)
Theorem C06_model_run_is_ref_run : forall count ops, count + 8 <= 2040 ->
  fst (fl_model_run (new_state count) ops) = fst (fl_ref_run count [] ops) /\
  FR count (snd (fl_model_run (new_state count) ops)) (snd (fl_ref_run count [] ops)).
Proof. exact model_run_is_ref_run. Qed.

(* monitor and model tied: a case on which the model agrees with the code (answers and final bytes)
   satisfies the C06 monitor; so a monitor alarm on an in-scope case is a model/code mismatch *)
Theorem C06_corr_ok_implies_monitor_ok : forall c,
  fl_in_scope c = true -> fl_corr_ok c = true -> fl_c06_ok c = true.
Proof. exact corr_ok_implies_c06_ok. Qed.

Theorem C06_monitor_alarm_implies_mismatch : forall c,
  fl_in_scope c = true -> fl_c06_ok c = false -> fl_corr_ok c = false.
Proof. exact c06_alarm_implies_mismatch. Qed.

(* ---- MatchFlag: what CATCH / CROAK test (any state) ---- *)
Theorem C06_match_flag_iff : forall s i mode,
  (forall b, get_flag s i = Ok b -> match_flag s i mode = Ok (Bool.eqb mode b)) /\
  (forall n, get_flag s i = Panic n -> match_flag s i mode = Panic n) /\
  (forall e, get_flag s i <> Err e).
Proof. exact match_flag_iff. Qed.

(* ---- frame (any state): SetFlag / ResetFlag on i touch nothing but bit i ---- *)
Theorem C06_flag_ops_frame : forall s i s' b,
  set_flag s i = Ok (s', b) \/ reset_flag s i = Ok (s', b) ->
  same_but_flag_field s s' /\ forall j, j <> i -> get_flag s' j = get_flag s j.
Proof. exact flag_ops_frame. Qed.

Theorem C06_flag_ops_own : forall s i s' b,
  (set_flag s i = Ok (s', b) -> get_flag s' i = Ok true /\ get_flag s i = Ok (negb b)) /\
  (reset_flag s i = Ok (s', b) -> get_flag s' i = Ok false /\ get_flag s i = Ok b).
Proof. exact flag_ops_own. Qed.

(* ---- out of range ---- *)
Theorem C06_flag_out_of_range_panics : forall s i, flag_in_range s i = false ->
  get_flag s i = Panic 20 /\ set_flag s i = Panic 21 /\ reset_flag s i = Panic 22 /\
  forall mode, match_flag s i mode = Panic 20.
Proof. exact flag_out_of_range_panics. Qed.

(* for every i : N.  i = 2^32 - 1: the uint32 test bitIndex+1 > BitSize wraps to 0 > BitSize and passes,
   the slice index panics instead (second conjunct of flag_in_range) *)
Theorem C06_reachable_in_range : forall count ops i, count + 8 <= 2040 ->
  flag_in_range (fl_model_final (new_state count) ops) i = (i <? count + 8).
Proof. exact reachable_in_range. Qed.

Print Assumptions C06_flag_field_is_a_set.
Print Assumptions C06_flag_field_is_a_set_bytes.
Print Assumptions C06_model_run_is_ref_run.
Print Assumptions C06_corr_ok_implies_monitor_ok.
Print Assumptions C06_monitor_alarm_implies_mismatch.
Print Assumptions C06_match_flag_iff.
Print Assumptions C06_flag_ops_frame.
Print Assumptions C06_flag_ops_own.
Print Assumptions C06_flag_out_of_range_panics.
Print Assumptions C06_reachable_in_range.

(* ---- non-vacuity ---- *)

(* the corpus history on NewState(300): flag 264 is the last but 43 of 308, in byte 33 *)
Definition corpus_ops : list fop := [FSet 264; FGet 264; FGet 8; FMatch 264 true; FMatch 8 true].
Example C06_flag_field_corpus_history :
  300 + 8 <=? 2040 = true /\
  fl_model_answers (new_state 300) corpus_ops = [FB true; FB true; FB false; FB true; FB false] /\
  fl_ref_answers 300 [] corpus_ops = [FB true; FB true; FB false; FB true; FB false] /\
  fl_ref_final 300 [] corpus_ops = [264] /\
  len (flag_bytes (s_flags (fl_model_final (new_state 300) corpus_ops))) = 39 /\
  nth 33 (flag_bytes (s_flags (fl_model_final (new_state 300) corpus_ops))) 0 = 1.
Proof. vm_compute. repeat split; reflexivity. Qed.

(* set, set again, reset, reset again, edges of the range, the uint32 wrap index and beyond *)
Example C06_flag_field_edges :
  fl_model_answers (new_state 0)
    [FSet 7; FSet 7; FReset 7; FReset 7; FGet 7; FSet 8; FGet 8; FMatch 8 false;
     FGet 4294967295; FSet 4294967295; FGet 4294967296; FMatch 4294967303 true]
  = [FB true; FB false; FB true; FB false; FB false; FPanic; FPanic; FPanic;
     FPanic; FPanic; FPanic; FPanic]
  /\ flag_in_range (new_state 0) 4294967295 = false
  /\ (w32 (4294967295 + 1) <=? s_bitsize (new_state 0)) = true.
Proof. vm_compute. repeat split; reflexivity. Qed.

(* the largest count in scope: 255 bytes, the last flag 2039 works *)
Example C06_flag_field_largest :
  fl_in_scope (mkFl 2032 [] []) = true /\
  len (flag_bytes (s_flags (new_state 2032))) = 255 /\
  fl_model_answers (new_state 2032) [FSet 2039; FGet 2039; FSet 2040] = [FB true; FB true; FPanic].
Proof. vm_compute. repeat split; reflexivity. Qed.

(* a case the monitor accepts and the model agrees with (hypotheses of C06_corr_ok_implies_monitor_ok),
   and a case with a wrong observed answer that both reject *)
Example C06_monitor_case_ok :
  let c := mkFl 2 [(FSet 9, FB true); (FMatch 9 true, FB true); (FGet 10, FPanic)] [0; 2] in
  fl_in_scope c = true /\ fl_corr_ok c = true /\ fl_c06_ok c = true.
Proof. vm_compute. repeat split; reflexivity. Qed.
Example C06_monitor_case_alarm :
  let c := mkFl 2 [(FSet 9, FB true); (FMatch 9 true, FB false)] [0; 2] in
  fl_in_scope c = true /\ fl_c06_ok c = false /\ fl_corr_ok c = false.
Proof. vm_compute. repeat split; reflexivity. Qed.

(* frame / own, concretely *)
Example C06_flag_ops_frame_witness :
  exists s', set_flag (new_state 8) 9 = Ok (s', true) /\ get_flag s' 9 = Ok true /\
             get_flag s' 8 = Ok false /\ get_flag s' 10 = Ok false /\ match_flag s' 9 false = Ok false.
Proof. eexists. vm_compute. repeat split; reflexivity. Qed.

(* ---- the scope guard is necessary ---- *)
(* beyond the range NewState's uint8 byte size wraps: count = 2041 gives BitSize 2049 and ONE flag byte
   (257 mod 256), so flag 8 exists for the reference (and for FlagBitSize) but SetFlag panics on the
   slice index.  K-C08-flagcount. *)
Example C06_flag_field_refuted_bytesize_wrap :
  (2041 + 8 <=? 2040) = false /\
  s_bitsize (new_state 2041) = 2049 /\
  len (s_flags (new_state 2041)) = 8 * 1 /\
  fl_model_answers (new_state 2041) [FSet 8] = [FPanic] /\
  fl_ref_answers 2041 [] [FSet 8] = [FB true] /\
  fl_model_answers (new_state 2041) [FSet 8] <> fl_ref_answers 2041 [] [FSet 8].
Proof. vm_compute. repeat split; try reflexivity. intros H; discriminate H. Qed.
(* the first count that wraps: 2033 (BitSize 2041, 256 bytes wrap to 0: no flag at all) *)
Example C06_flag_field_refuted_bytesize_wrap_first :
  len (s_flags (new_state 2033)) = 0 /\
  fl_model_answers (new_state 2033) [FGet 0] = [FPanic] /\
  fl_ref_answers 2033 [] [FGet 0] = [FB false].
Proof. vm_compute. repeat split; reflexivity. Qed.
