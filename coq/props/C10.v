(* C10 — Every storage backend behaves as the same keyed map. *)
From Vise Require Import Bytes Errors Consts DbKey DbModel DbProofs.
Local Open Scope N_scope.

(* The reference map (DbModel.spec): (type, session-or-none, language-or-default, key) -> value,
   newest entry first; Get looks up the translation, then the default-language entry, and answers
   ENotFound when neither was ever written; Put is refused while the type is locked.  "X refines
   the reference" = for EVERY history of Put/Get/SetPrefix/SetSession/SetLanguage/SetLock the
   backend returns, operation by operation, exactly what the reference map returns.

   FULL STATEMENT (false for the code as it is; refuted below): the refinement holds on every
   backend for all histories over well-formed keys (wf_key: symbol grammar, no language suffix),
   dot-free session ids (wf_sid or empty) and the documented types, and Dump lists exactly the
   reference map's keys with the prefix.  mem and pg satisfy it, even under the weaker guards of
   hist_ok; fs satisfies it only under fs_hist_ok (plain names, no_legacy_clash, b64_slash_free),
   and Dump only under dump_ok. *)

(* what the reference map answers: the latest successful write of the same context; the
   default-language entry when there is no translation; ENotFound for a key never written *)
Theorem C10_reference_read_your_write : forall sp k v,
  snd (spec_put sp k v) = DOk -> spec_get (fst (spec_put sp k v)) k = DVal v.
Proof. exact spec_read_your_write. Qed.
Theorem C10_reference_fallback_default : forall sp k c v,
  b_pfx (sp_base sp) <> DATATYPE_UNKNOWN -> eff_lang (sp_base sp) = Some c ->
  slookup (ctx_akey (sp_base sp) (Some c) k) (sp_map sp) = None ->
  slookup (ctx_akey (sp_base sp) None k) (sp_map sp) = Some v ->
  spec_get sp k = DVal v.
Proof. exact spec_fallback_default. Qed.
Theorem C10_reference_never_written : forall sp k,
  b_pfx (sp_base sp) <> DATATYPE_UNKNOWN ->
  (forall l, slookup (ctx_akey (sp_base sp) l k) (sp_map sp) = None) ->
  spec_get sp k = DErr ENotFound.
Proof. exact spec_never_written. Qed.

(* hist_ok: session ids dot-free, language codes of three bytes, keys without language suffix
   (and dot-free under the empty session id); wf_key_key_ok shows wf_key implies the key guard *)
Theorem C10_mem_refines_spec : forall dir ops,
  hist_ok spec_init ops = true -> db_results BMem dir ops = spec_results ops.
Proof. exact mem_refines_spec_lemma. Qed.

Theorem C10_pg_refines_spec : forall dir ops,
  hist_ok spec_init ops = true -> db_results BPg dir ops = spec_results ops.
Proof. exact pg_refines_spec_lemma. Qed.

Theorem C10_wf_key_meets_guard : forall b k,
  wf_key k = true -> documented_type (b_pfx b) = true -> key_ok b k = true.
Proof. exact wf_key_key_ok. Qed.

(* a write to a locked type is refused and changes nothing, on every backend *)
Theorem C10_locked_put_is_noop : forall be st k v,
  check_put (d_base st) = false -> db_step be st (OPut k v) = (st, DRefused).
Proof. exact locked_put_is_noop_lemma. Qed.
(* the four read-only types are locked in a fresh store *)
Theorem C10_fresh_store_locks_readonly_types : forall t,
  In t [DATATYPE_BIN; DATATYPE_MENU; DATATYPE_TEMPLATE; DATATYPE_STATICLOAD] ->
  check_put (set_prefix new_base t) = false.
Proof. exact fresh_readonly_locked. Qed.

(* sealing locks the read-only types (Safe() holds) and can never be undone: after it, over every
   continuation, the seal and the lock mask stay as they are and SetLock fails *)
Theorem C10_seal_establishes_safe : forall b lk,
  b_seal b = false -> snd (set_lock b 0 lk) = true
  /\ b_seal (fst (set_lock b 0 lk)) = true /\ safe (fst (set_lock b 0 lk)) = true.
Proof. exact seal_establishes_safe. Qed.
Theorem C10_seal_is_final : forall be ops st,
  b_seal (d_base st) = true ->
  b_seal (d_base (fst (db_run be st ops))) = true
  /\ b_lock (d_base (fst (db_run be st ops))) = b_lock (d_base st).
Proof. exact seal_is_final_lemma. Qed.
Theorem C10_sealed_setlock_fails : forall be st p lk,
  b_seal (d_base st) = true -> snd (db_step be st (OSetLock p lk)) = DErr EGen.
Proof. exact sealed_setlock_fails. Qed.

(* fs, text and binary-key mode: the refinement holds under fs_hist_ok = documented types, plain
   file names (no '/', NUL, "." / "..", at most 255 bytes; in binary mode this contains
   b64_slash_free), and no_legacy_clash (no legacy fallback name beginning with a type character) *)
Theorem C10_fs_refines_spec_partial : forall bin dir ops,
  dir_ok dir = true -> fs_hist_ok bin spec_init ops = true ->
  db_results (BFs bin) dir ops = spec_results ops.
Proof. exact fs_refines_spec_partial_lemma. Qed.

(* fs, text mode, default language: Dump(p) lists exactly the keys of the current (type, session)
   that have the prefix p, once each, with the values a Get returns, and answers ENotFound when
   there is none.  Guards: the history satisfies fs_hist_ok and never stores under an empty key;
   dump_ok = documented type, no language set and no translation stored for the type, and a session
   id set exactly when the type is sessioned (the complements are the refutations below). *)
Theorem C10_fs_dump_lists_prefix_partial : forall dir ops p,
  dir_ok dir = true -> dir <> [] ->
  fs_hist_ok false spec_init ops = true -> forallb put_key_nonempty ops = true ->
  let st := fst (db_run (BFs false) (db_init dir) ops) in
  let sp := fst (spec_run spec_init ops) in
  dump_ok sp = true ->
  match fs_dump false st p with
  | DDump l =>
    (forall k v, In (k, v) l <-> is_prefix p k = true /\ slookup (ctx_akey (sp_base sp) None k) (sp_map sp) = Some v)
    /\ NoDup (map fst l) /\ l <> []
  | DErr ENotFound =>
    forall k, is_prefix p k = true -> slookup (ctx_akey (sp_base sp) None k) (sp_map sp) = None
  | _ => False
  end.
Proof. exact fs_dump_lists_prefix_partial_lemma. Qed.

(* non-vacuity of the listing theorem: two sessions and another type in one directory *)
Example C10_dump_nonvacuous :
  let h := [OSetLock DATATYPE_MENU false; OSetPrefix DATATYPE_MENU; OPut (s2b "pin_menu") (s2b "Pin");
            OSetPrefix DATATYPE_USERDATA; OSetSession (s2b "alice"); OPut (s2b "pin") (s2b "1");
            OSetSession (s2b "bob"); OPut (s2b "pine") (s2b "3"); OPut (s2b "pin") (s2b "2"); OPut (s2b "q") (s2b "4")] in
  fs_hist_ok false spec_init h = true /\ forallb put_key_nonempty h = true /\ dump_ok (ref_state h) = true
  /\ fs_dump false (fs_state false h) (s2b "pi") = DDump [(s2b "pin", s2b "2"); (s2b "pine", s2b "3")]
  /\ spec_dump (ref_state h) (s2b "pi") = DDump [(s2b "pin", s2b "2"); (s2b "pine", s2b "3")]
  /\ fs_dump false (fs_state false h) (s2b "x") = DErr ENotFound.
Proof. vm_compute. repeat split. Qed.

(* refutations, each reproduced on the real fs backend by the harness corpus *)
Theorem C10_fs_refuted_legacy_name :
  exists ops, hist_ok spec_init ops = true /\ wf_key (s2b "Ps") = true /\ wf_key (s2b "bin") = true
    /\ fs_hist_ok false spec_init ops = false
    /\ last (db_results (BFs false) wdir ops) DOk = DVal (s2b "secret")
    /\ last (spec_results ops) DOk = DErr ENotFound.
Proof. exact fs_refuted_legacy. Qed.
Theorem C10_fs_refuted_base64_slash :
  exists ops, hist_ok spec_init ops = true /\ b64_slash_free [99; 240] = false
    /\ fs_hist_ok true spec_init ops = false
    /\ db_results (BFs true) wdir ops <> spec_results ops
    /\ db_results BMem wdir ops = spec_results ops.
Proof. exact fs_refuted_base64_slash. Qed.
Theorem C10_fs_refuted_binary_dump_stops_early :
  exists ops p, fs_hist_ok true spec_init ops = true
    /\ fs_dump true (fs_state true ops) p = DDump [(s2b "ca", s2b "v1")]
    /\ spec_dump (ref_state ops) p = DDump [(s2b "c", s2b "v3"); ([99; 0], s2b "v4"); (s2b "ca", s2b "v1")].
Proof. exact fs_refuted_binary_dump. Qed.
Theorem C10_fs_refuted_dump_lists_translation_twice :
  exists ops p, fs_hist_ok false spec_init ops = true
    /\ fs_dump false (fs_state false ops) p = DDump [(s2b "foo", s2b "norsk"); (s2b "foo", s2b "norsk")]
    /\ spec_dump (ref_state ops) p = DDump [(s2b "foo", s2b "norsk")].
Proof. exact fs_refuted_dump_translation_twice. Qed.
Theorem C10_fs_refuted_dump_fails_on_translation_only :
  exists ops p, fs_hist_ok false spec_init ops = true
    /\ fs_dump false (fs_state false ops) p = DErr ENotFound
    /\ spec_dump (ref_state ops) p = DDump [(s2b "foo", s2b "default")].
Proof. exact fs_refuted_dump_translation_only. Qed.
Theorem C10_fs_refuted_dump_with_session_set :
  exists ops p, fs_hist_ok false spec_init ops = true
    /\ fs_dump false (fs_state false ops) p = DErr ENotFound
    /\ spec_dump (ref_state ops) p = DDump [(s2b "foo", s2b "code")].
Proof. exact fs_refuted_dump_session_set. Qed.
Theorem C10_fs_refuted_dump_without_session :
  exists ops p, fs_hist_ok false spec_init ops = true /\ forallb put_key_nonempty ops = true
    /\ dump_ok (ref_state ops) = false
    /\ fs_dump false (fs_state false ops) p = DDump [(s2b "b1", s2b "v1"); (s2b "x.a1", s2b "v2")]
    /\ spec_dump (ref_state ops) p = DDump [(s2b "b1", s2b "v1")].
Proof. exact fs_refuted_dump_without_session. Qed.
Theorem C10_fs_refuted_name_too_long :
  exists ops, hist_ok spec_init ops = true /\ wf_key (rep 120 255) = true
    /\ fs_hist_ok false spec_init ops = false
    /\ last (db_results (BFs false) wdir ops) DOk = DErr EGen
    /\ last (spec_results ops) DOk = DOk.
Proof. exact fs_refuted_name_too_long. Qed.

(* non-vacuity: one history with locked and unlocked writes, a session switch, a translation with
   fallback to the default entry, a never-written key and a seal satisfies every guard above and
   produces the same non-trivial results on all four backends *)
Example C10_nonvacuous :
  let h := [OSetPrefix DATATYPE_MENU; OPut (s2b "foo_menu") (s2b "x"); OSetLock DATATYPE_MENU false;
            OPut (s2b "foo_menu") (s2b "Foo"); OSetLanguage (Some (s2b "nor")); OPut (s2b "foo_menu") (s2b "Fu");
            OPut (s2b "bar_menu") (s2b "Baa"); OSetLanguage (Some (s2b "swa")); OGet (s2b "foo_menu");
            OSetLanguage (Some (s2b "nor")); OGet (s2b "foo_menu"); OSetLock 0 true; OSetLock DATATYPE_MENU false;
            OPut (s2b "foo_menu") (s2b "y");
            OSetPrefix DATATYPE_USERDATA; OSetSession (s2b "alice"); OPut (s2b "pin") (s2b "1234");
            OSetSession (s2b "bob"); OGet (s2b "pin"); OSetSession (s2b "alice"); OGet (s2b "pin")] in
  let expect := [DOk; DRefused; DOk; DOk; DOk; DOk; DOk; DOk; DVal (s2b "Foo"); DOk; DVal (s2b "Fu"); DOk;
                 DErr EGen; DRefused; DOk; DOk; DOk; DOk; DErr ENotFound; DOk; DVal (s2b "1234")] in
  forallb wf_key [s2b "foo_menu"; s2b "bar_menu"; s2b "pin"] = true
  /\ hist_ok spec_init h = true /\ fs_hist_ok false spec_init h = true /\ fs_hist_ok true spec_init h = true
  /\ dir_ok wdir = true
  /\ spec_results h = expect
  /\ db_results BMem wdir h = expect /\ db_results BPg wdir h = expect
  /\ db_results (BFs false) wdir h = expect /\ db_results (BFs true) wdir h = expect.
Proof. vm_compute. repeat split. Qed.

Print Assumptions C10_reference_read_your_write.
Print Assumptions C10_reference_fallback_default.
Print Assumptions C10_reference_never_written.
Print Assumptions C10_mem_refines_spec.
Print Assumptions C10_pg_refines_spec.
Print Assumptions C10_wf_key_meets_guard.
Print Assumptions C10_locked_put_is_noop.
Print Assumptions C10_fresh_store_locks_readonly_types.
Print Assumptions C10_seal_establishes_safe.
Print Assumptions C10_seal_is_final.
Print Assumptions C10_sealed_setlock_fails.
Print Assumptions C10_fs_refines_spec_partial.
Print Assumptions C10_fs_dump_lists_prefix_partial.
Print Assumptions C10_fs_refuted_legacy_name.
Print Assumptions C10_fs_refuted_base64_slash.
Print Assumptions C10_fs_refuted_binary_dump_stops_early.
Print Assumptions C10_fs_refuted_dump_lists_translation_twice.
Print Assumptions C10_fs_refuted_dump_fails_on_translation_only.
Print Assumptions C10_fs_refuted_dump_with_session_set.
Print Assumptions C10_fs_refuted_dump_without_session.
Print Assumptions C10_fs_refuted_name_too_long.
