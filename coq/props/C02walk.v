(* C02, engine level — walking the pages of a sink node with the "next" and "previous" selectors.

   Level: EngineModel.request_long (long-lived engine: Exec then Flush), through VmModel.run,
   VmModel.vm_render and RenderModel.page_render.  The node's code has the shape
       LOAD k 0; MAP k; MNEXT nt ns; MPREV pt ps; HALT; INCMP > ns; INCMP < ps; further INCMP lines
   (`node_code`), k being the one zero-size symbol.  `steady c nd k val code ca j e` is the engine
   between two requests of the walk: initialised, flushed, not exiting, the routes pending, the
   machine waiting (WAIT set) at node nd, page index j, the value val of k visible in the cache ca.
   `walk_app` collects the guards: well-formed symbols, default separator, the node's code is what
   the resource serves, ns <> ps, ns is not the wildcard, no other route repeats ns or ps, both
   selectors are valid input, and — for every context language — the guards of the page-level lift
   (`page_ok`: template of the fragment mentioning k once, rows_ok, budget_ok computed from the
   pre-render, labels resolving to themselves, 0 < OutputSize < 2^32).
   Every request re-fetches and re-runs the node's code (LOAD/MAP/MNEXT/MPREV run again): the
   theorems go through that re-run; LOAD is skipped because k is visible (the world of function
   calls v_w is unchanged), the page is rebuilt from the same cache value.
   `run` is fuelled: every conclusion has the alternative "the request ran out of fuel".

   FULL STATEMENT of the property at this level = C02_engine_walk_partial + C02_engine_prev_step_partial
   + the two end theorems, without the guards; it is false without them for the reasons recorded at
   page level (K-C02-emptyrow, K-C02-nul, K-C02-budget, K-C02-labelsize). *)
From Coq Require Import Lia.
From Vise Require Import Bytes Errors Consts EngConsts Codec CacheModel StateModel NavModel NavSpec RenderModel
  VmModel EngineModel RenderProofs RoutingProofs WalkProofs.
Local Open Scope N_scope.

(* one "next" below the last page: the answer is exactly page j+1 (same static parts, block j+1 of
   the rows, the browse lines of that index), the index is j+1, position and cache are unchanged, the
   function of k is not called again *)
Theorem C02_engine_next_step_partial : forall fuel rs c e nd k nt ns pt ps l2 val ca src a b xa xb r n cs pages j p,
  walk_app rs c nd k nt ns pt ps l2 val ca src a b xa xb ->
  pages_of_node val (c_out c) (walk_browse nt ns pt ps) xa xb r n cs pages ->
  steady c nd k val (routes ns ps l2) ca j e ->
  nth_error pages (N.to_nat (j + 1)) = Some p ->
  r_exec (snd (request_long fuel rs c e ns)) = SFuel \/
  (snd (request_long fuel rs c e ns)
     = mkResp true SOk (page_text xa xb (walk_browse nt ns pt ps) n (j + 1) p) FOk
   /\ steady c nd k val (routes ns ps l2) ca (j + 1) (fst (request_long fuel rs c e ns))
   /\ s_path (v_st (e_v (fst (request_long fuel rs c e ns)))) = s_path (v_st (e_v e))
   /\ v_w (e_v (fst (request_long fuel rs c e ns))) = v_w (e_v e)).
Proof. exact engine_next_step. Qed.

(* one "previous" above the first page goes back to page j-1 *)
Theorem C02_engine_prev_step_partial : forall fuel rs c e nd k nt ns pt ps l2 val ca src a b xa xb r n cs pages j p,
  walk_app rs c nd k nt ns pt ps l2 val ca src a b xa xb ->
  pages_of_node val (c_out c) (walk_browse nt ns pt ps) xa xb r n cs pages ->
  steady c nd k val (routes ns ps l2) ca j e -> j <> 0 ->
  nth_error pages (N.to_nat (j - 1)) = Some p ->
  r_exec (snd (request_long fuel rs c e ps)) = SFuel \/
  (snd (request_long fuel rs c e ps)
     = mkResp true SOk (page_text xa xb (walk_browse nt ns pt ps) n (j - 1) p) FOk
   /\ steady c nd k val (routes ns ps l2) ca (j - 1) (fst (request_long fuel rs c e ps))
   /\ s_path (v_st (e_v (fst (request_long fuel rs c e ps)))) = s_path (v_st (e_v e))
   /\ v_w (e_v (fst (request_long fuel rs c e ps))) = v_w (e_v e)).
Proof. exact engine_prev_step. Qed.

(* the walk: from page j, m successive "next" requests (j + m < n) answer with pages j+1 .. j+m, in
   order — with `pages` a partition of the rows (pages_of_node) every row is shown exactly once over
   pages 0 .. n-1 — and leave the engine waiting at page j+m, position and function calls unchanged *)
Theorem C02_engine_walk_partial : forall fuel rs c nd k nt ns pt ps l2 val ca src a b xa xb r n cs pages,
  walk_app rs c nd k nt ns pt ps l2 val ca src a b xa xb ->
  pages_of_node val (c_out c) (walk_browse nt ns pt ps) xa xb r n cs pages ->
  forall m j e,
  steady c nd k val (routes ns ps l2) ca j e -> j + N.of_nat m < n ->
  (exists resp, In resp (snd (nexts m fuel rs c e ns)) /\ r_exec resp = SFuel) \/
  (snd (nexts m fuel rs c e ns)
     = map (fun i => page_resp xa xb (walk_browse nt ns pt ps) n pages (j + N.of_nat i)) (seq 1 m)
   /\ steady c nd k val (routes ns ps l2) ca (j + N.of_nat m) (fst (nexts m fuel rs c e ns))
   /\ s_path (v_st (e_v (fst (nexts m fuel rs c e ns)))) = s_path (v_st (e_v e))
   /\ v_w (e_v (fst (nexts m fuel rs c e ns))) = v_w (e_v e)).
Proof. exact engine_walk. Qed.

(* the end of the walk: "next" on the last page advances the index to n and Flush reports an error
   (the plain error of GetAt, not a BrowseError: the catch node is not involved) with no content *)
Theorem C02_engine_next_on_last_page : forall fuel rs c e nd k nt ns pt ps l2 val ca src a b xa xb r n cs pages j,
  walk_app rs c nd k nt ns pt ps l2 val ca src a b xa xb ->
  pages_of_node val (c_out c) (walk_browse nt ns pt ps) xa xb r n cs pages ->
  steady c nd k val (routes ns ps l2) ca j e -> j + 1 = n ->
  r_exec (snd (request_long fuel rs c e ns)) = SFuel \/
  (snd (request_long fuel rs c e ns) = mkResp true SOk [] (FErr EGen)
   /\ steady c nd k val (routes ns ps l2) ca n (fst (request_long fuel rs c e ns))
   /\ s_path (v_st (e_v (fst (request_long fuel rs c e ns)))) = s_path (v_st (e_v e))
   /\ v_w (e_v (fst (request_long fuel rs c e ns))) = v_w (e_v e)).
Proof. exact engine_next_on_last_page. Qed.

(* the start of the walk (VM level): "previous" on page 0 is no move (IndexError); every remaining
   route is passed over and the run continues as for an input that matched nothing: MOVE _catch on a
   page that carries the error "invalid input: '<ps>'" *)
Theorem C02_prev_on_first_page : forall fuel rs sep lang nd k nt ns pt ps l2 val out v,
  node_wf k nt ns pt ps l2 -> sel_ok ns ps l2 -> nd <> [] -> nd <> catch_sym ->
  at_page nd k val out 0 v -> s_input (v_st v) = Some ps ->
  let vI := snd (at_match lang v [(t_next, ns)]) in
  let vN := noprev_vm vI t_prev ps (match_st (v_st vI)) (v_ca vI) in
  let lv := scan_skip (fst (at_match lang v [(t_next, ns)]), vN) l2 in
  out_of_fuel (run fuel rs sep lang (routes ns ps l2) v) \/
  exists f, (f < fuel)%nat /\
    run fuel rs sep lang (routes ns ps l2) v =
    run f rs sep (fst lv) move_catch_code
        (vset_pg (snd lv) (page_with_error (v_pg (snd lv)) (Some (msg_invalid_input (Some ps))))).
Proof. exact walk_prev_on_first_page. Qed.

(* the run behind one step (VM level), showing the re-fetch: the pending routes are run, ">" fires,
   the node's code is fetched and run again up to HALT; the page is the node's page again, the
   cache and the world of function calls are what they were *)
Theorem C02_vm_next_run_partial : forall rs sep nd k nt ns pt ps l2 val out j fuel lang v,
  node_wf k nt ns pt ps l2 -> m_sep (vm_new_menu sep) = default_sep ->
  rs_code rs nd = Ok (node_code k nt ns pt ps l2) -> sel_ok ns ps l2 ->
  at_page nd k val out j v -> s_input (v_st v) = Some ns ->
  out_of_fuel (run fuel rs sep lang (routes ns ps l2) v) \/
  exists vH, run fuel rs sep lang (routes ns ps l2) v = (vH, routes ns ps l2, SOk)
    /\ at_page nd k val out (w16 (j + 1)) vH
    /\ node_page (v_pg vH) k val out (walk_browse nt ns pt ps)
    /\ getf (v_st vH) FLAG_DIRTY = true
    /\ s_path (v_st vH) = s_path (v_st v) /\ s_input (v_st vH) = Some ns /\ s_lang (v_st vH) = s_lang (v_st v)
    /\ s_code (v_st vH) = s_code (v_st v) /\ s_bitsize (v_st vH) = s_bitsize (v_st v)
    /\ v_ca vH = v_ca v /\ v_w vH = v_w v /\ v_taint vH = v_taint v.
Proof. exact walk_next_run. Qed.

(* non-vacuity: an application (node root: LOAD foo 0; MAP foo; MNEXT next 11; MPREV back 22; HALT;
   INCMP > 11; INCMP < 22, template "T\n{{.foo}}", six rows, OutputSize 26) meets every hypothesis
   after its first request, has 4 pages, and the requests "11", "11", "22", then "11", "11", "11"
   answer as the theorems say: the function foo was called once *)
Example C02walk_nonvacuous :
  walk_app ex_rs ex_cfg (s2b "root") (s2b "foo") (s2b "next") (s2b "11") (s2b "back") (s2b "22") []
           ex_val ex_ca ex_src [TLit (s2b "T" ++ [nl])] [] (s2b "T" ++ [nl]) []
  /\ steady ex_cfg (s2b "root") (s2b "foo") ex_val (routes (s2b "11") (s2b "22") []) ex_ca 0 ex_e0
  /\ (exists r cs pages, pages_of_node ex_val 26 ex_br (s2b "T" ++ [nl]) [] r 4 cs pages)
  /\ (let e1 := fst (request_long 100 ex_rs ex_cfg ex_e0 (s2b "11")) in
      let e2 := fst (request_long 100 ex_rs ex_cfg e1 (s2b "11")) in
      let e3 := fst (request_long 100 ex_rs ex_cfg e2 (s2b "22")) in
      let e6 := fst (nexts 3 100 ex_rs ex_cfg e3 (s2b "11")) in
      map r_out (snd (nexts 2 100 ex_rs ex_cfg ex_e0 (s2b "11")))
        = [s2b "T" ++ [nl] ++ s2b "dddd" ++ [nl] ++ s2b "11:next" ++ [nl] ++ s2b "22:back";
           s2b "T" ++ [nl] ++ s2b "eeee" ++ [nl] ++ s2b "11:next" ++ [nl] ++ s2b "22:back"]
      /\ r_out (snd (request_long 100 ex_rs ex_cfg e2 (s2b "22")))
           = s2b "T" ++ [nl] ++ s2b "dddd" ++ [nl] ++ s2b "11:next" ++ [nl] ++ s2b "22:back"
      /\ map (fun x => (r_out x, r_flush x)) (snd (nexts 3 100 ex_rs ex_cfg e3 (s2b "11")))
           = [(s2b "T" ++ [nl] ++ s2b "eeee" ++ [nl] ++ s2b "11:next" ++ [nl] ++ s2b "22:back", FOk);
              (s2b "T" ++ [nl] ++ s2b "ffff" ++ [nl] ++ s2b "22:back", FOk);
              ([], FErr EGen)]
      /\ s_idx (v_st (e_v e6)) = 4 /\ v_w (e_v e6) = [(s2b "foo", 1)]).
Proof.
  split; [exact ex_walk_app|]. split; [exact ex_steady|]. split; [exact ex_pages|].
  vm_compute. repeat split.
Qed.

Print Assumptions C02_engine_next_step_partial.
Print Assumptions C02_engine_prev_step_partial.
Print Assumptions C02_engine_walk_partial.
Print Assumptions C02_engine_next_on_last_page.
Print Assumptions C02_prev_on_first_page.
Print Assumptions C02_vm_next_run_partial.
