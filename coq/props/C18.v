(* C18 — The selected language reaches every lookup and survives the session.

   Statement (properties.jsonl): "Once a language is selected - by configuration or by an external
   function that returns a valid ISO-639 code together with the LANG flag - every later template,
   menu-label and external-function lookup of that session is made in that language, including
   after the session has been saved and resumed, and a lookup with no translation returns the
   default-language entry.  An unknown code leaves the language unchanged."  For all programs that
   switch language at arbitrary points, all histories, partial translation sets, long-lived and
   persisted operation.

   Where the language lives in the model: `s_lang` of the state (persisted) is the SESSION
   language; the `lang` parameter of `run` / `vm_render` is the "Language" value of the Go context.
   `eng_exec_inner` and `eng_flush` start from `s_lang`; inside the run loop the prelude of every
   instruction replaces the context value by `s_lang` when FLAG_LANG is set and the state has a
   language (`eff_lang lang st` is the value the instruction about to run will see) and clears the
   flag.  Function lookups are the `EvFunc sym lang input` ghost events, renders the
   `EvRender sym idx lang` events; `page_render` is handed `rs_tpl rs lang` and `rs_menu rs lang`.
   `reaches rs sep c c'`: the run loop started in configuration c = (context language, code, machine)
   passes through c' (`run (S fuel) = match run_step with Done r => r | Next l b v => run fuel l b v`,
   lemma run_S; `iter_step` computes such configurations).
   `lang_inv lang st`: FLAG_LANG is pending, or lang is the session language, or the session has
   none — true whenever a run is started with lang = s_lang st, as the engine does.

   One clause is false of the code (K-C18-emptylang): an EMPTY result with LANG resets the session
   language to none — "An unknown code leaves the language unchanged" is violated, and inside that
   run the context keeps the old language while the session has none.  Stated as _partial under
   the guard "the code is not empty" / "the session has a language", with _refuted witnesses. *)
From Vise Require Import Bytes Errors Consts EngConsts Codec CacheModel StateModel NavModel NavSpec
  RenderModel VmModel EngineModel SymbolProofs.
Local Open Scope N_scope.

(* ================================ (a) the run loop ============================================ *)
(* one iteration: every function call it makes carries the language current at that instruction
   (eff_lang), it logs no render; and the session language can only change together with a LANG
   flag left set for the next instruction to consume *)
Theorem C18_calls_carry_instruction_language : forall rs sep lang b v v',
  (exists b' s, run_step rs sep lang b v = Done (v', b', s)) \/ (exists l1 b1, run_step rs sep lang b v = Next l1 b1 v') ->
  (exists new, v_log v' = new ++ v_log v
     /\ Forall (fun e => match e with EvFunc _ l _ => l = eff_lang lang (v_st v) | EvRender _ _ _ => False | _ => True end) new)
  /\ (s_lang (v_st v') <> s_lang (v_st v) -> getf (v_st v') FLAG_LANG = true).
Proof. exact step_calls_lemma. Qed.

(* what a function result does to the session language: nothing unless it left LANG set; then
   exactly SetLanguage(result) *)
Theorem C18_switch_exact : forall rs lang key v v' content,
  refresh rs lang key v = (v', content, SOk) ->
  s_lang (v_st v') = if getf (v_st v') FLAG_LANG then new_lang lang_lookup (s_lang (v_st v)) content
                     else s_lang (v_st v).
Proof. exact refresh_switch. Qed.

(* Full statement (false, see the refutation): "at every instruction of a run started in the
   session language, the context language IS the session language".
   Partial, guard = the session has a language at that instruction: then that instruction — hence
   every function call it makes — runs in it.  In particular after a switch to L all later
   instructions of the run use L for as long as the session stays in L. *)
Theorem C18_lang_reaches_lookups_run_partial : forall rs sep lang b v l' b' v' L,
  lang_inv lang (v_st v) -> reaches rs sep (lang, b, v) (l', b', v') ->
  s_lang (v_st v') = Some L -> eff_lang l' (v_st v') = Some L.
Proof. exact run_lang_after_switch_lemma. Qed.

(* without the guard: the context language is the session's or the session has none *)
Theorem C18_run_lang_follows_session : forall rs sep lang b v l' b' v',
  lang_inv lang (v_st v) -> reaches rs sep (lang, b, v) (l', b', v') ->
  eff_lang l' (v_st v') = s_lang (v_st v') \/ s_lang (v_st v') = None.
Proof. exact run_lang_follows_lemma. Qed.

(* whole run, any fuel (also when it runs out): every function call event appended was made by an
   instruction of a configuration the run passed through, in that instruction's language, which is
   the session's language at that point or the session had none; no render event *)
Theorem C18_run_function_calls : forall rs sep fuel lang b v,
  lang_inv lang (v_st v) ->
  exists new, v_log (fst (fst (run fuel rs sep lang b v))) = new ++ v_log v
    /\ Forall (fun e => match e with
                        | EvFunc _ l _ => exists l2 b2 v2, reaches rs sep (lang, b, v) (l2, b2, v2)
                                            /\ l = eff_lang l2 (v_st v2)
                                            /\ (l = s_lang (v_st v2) \/ s_lang (v_st v2) = None)
                        | EvRender _ _ _ => False
                        | _ => True end) new.
Proof. exact run_funcs_lang_lemma. Qed.

(* K-C18-emptylang inside a run: session and run in nor; RELOAD lang1 answers "" with LANG; at the
   next instruction the session has no language and the context still says nor *)
Theorem C18_lang_reaches_lookups_refuted_emptylang :
  exists rs sep lang b v l' b' v',
    lang = Some (s2b "nor") /\ s_lang (v_st v) = lang /\ lang_inv lang (v_st v)
    /\ reaches rs sep (lang, b, v) (l', b', v')
    /\ s_lang (v_st v') = None /\ eff_lang l' (v_st v') = Some (s2b "nor").
Proof. exact emptylang_run_witness. Qed.

(* ================================ (b) the engine ============================================== *)
(* Exec: the main run is started in the session language (exec_start), so every function call it
   logs satisfies the run-level theorem *)
Theorem C18_lang_reaches_lookups_exec : forall fuel rs c e,
  s_code (v_st (e_v e)) <> [] ->
  exists new, v_log (e_v (fst (fst (eng_exec_inner fuel rs c e)))) = new ++ v_log (e_v e)
    /\ Forall (fun ev => match ev with
                         | EvFunc _ l _ => exists l2 b2 v2, reaches rs (c_sep c) (exec_start c e) (l2, b2, v2)
                                             /\ l = eff_lang l2 (v_st v2)
                                             /\ (l = s_lang (v_st v2) \/ s_lang (v_st v2) = None)
                         | EvRender _ _ _ => False
                         | _ => True end) new.
Proof. exact eng_exec_inner_calls. Qed.

(* the entry function of WithFirst runs through the same loop (first_start is the configuration
   runFirst starts from: one level down, at "_first"); eng_init calls it with the session language *)
Theorem C18_lang_reaches_lookups_first : forall fuel c lang e script,
  c_first c = Some script -> lang_inv lang (v_st (e_v e)) ->
  exists new, v_log (e_v (fst (fst (run_first fuel c lang e)))) = new ++ v_log (e_v e)
    /\ Forall (fun ev => match ev with
                         | EvFunc _ l _ => exists c0 l2 b2 v2, first_start lang e = Some c0
                                             /\ reaches (first_rsrc script) [] c0 (l2, b2, v2)
                                             /\ l = eff_lang l2 (v_st v2)
                                             /\ (l = s_lang (v_st v2) \/ s_lang (v_st v2) = None)
                         | EvRender _ _ _ => False
                         | _ => True end) new.
Proof. exact run_first_calls. Qed.

(* Flush: every render event (the page, and the second render after a BrowseError) carries the
   session language at flush time *)
Theorem C18_lang_reaches_lookups_flush : forall fuel rs c e,
  exists new, v_log (e_v (fst (fst (eng_flush fuel rs c e)))) = new ++ v_log (e_v e)
              /\ Forall (fun ev => match ev with EvRender _ _ l => l = s_lang (v_st (e_v e)) | _ => True end) new.
Proof. exact eng_flush_events. Qed.

(* ... and the lookups cannot see any other language: two resources that agree on code,
   functions and on the template / menu lookups IN THE SESSION LANGUAGE give the same Flush
   (engine, output, status), whatever they hold for other languages *)
Theorem C18_flush_noninterference : forall fuel rs rs' c e,
  rs_agree_on (s_lang (v_st (e_v e))) rs rs' -> eng_flush fuel rs c e = eng_flush fuel rs' c e.
Proof. exact eng_flush_noninterference. Qed.

Theorem C18_flush_noninterference_app : forall fuel a a' c e,
  app_agree_on (s_lang (v_st (e_v e))) a a' ->
  eng_flush fuel (app_rsrc a) c e = eng_flush fuel (app_rsrc a') c e.
Proof. exact flush_noninterference_app. Qed.

(* the run loop does not look at templates or menu labels at all *)
Theorem C18_run_ignores_templates : forall rs rs' sep, rs_same_code rs rs' ->
  forall fuel lang b v, run fuel rs sep lang b v = run fuel rs' sep lang b v.
Proof. exact run_ext. Qed.

(* ================================ (c) persistence ============================================= *)
(* the snapshot keeps the language; Finish saves the engine's; a new engine around a stored
   session starts from the stored one *)
Theorem C18_language_survives :
  (forall st ca, s_lang (fst (snap_of st ca)) = s_lang st)
  /\ (forall e sn, eng_finish e = Some sn -> s_lang (fst sn) = s_lang (v_st (e_v e)))
  /\ (forall c st ca w lg, s_lang (v_st (e_v (new_engine c (Some (st, ca)) w lg))) = s_lang st).
Proof. exact language_survives_lemma. Qed.

(* a persisted request that ends regularly stores the language the session has after Flush *)
Theorem C18_persisted_request_stores_language : forall fuel rs c p input,
  let e := new_engine c (pw_store p) (pw_w p) (pw_log p) in
  let '(e1, cont, s) := eng_exec fuel rs c e input in
  match s with
  | SPanic _ | SFuel => True
  | _ =>
    let '(e2, out, f) := eng_flush fuel rs c e1 in
    match f with
    | FPanic _ | FFuel => True
    | _ => e_initd e2 = true ->
           exists st' ca', pw_store (fst (request_persisted fuel rs c p input)) = Some (st', ca')
                           /\ s_lang st' = s_lang (v_st (e_v e2))
    end
  end.
Proof. exact request_persisted_store_lang. Qed.

(* once a session exists the configured language is ignored: the whole request (store, world,
   log, response) is the same for every c_lang *)
Theorem C18_session_language_overrides_config : forall fuel rs c l p input sn,
  pw_store p = Some sn ->
  request_persisted fuel rs (cfg_set_lang c l) p input = request_persisted fuel rs c p input.
Proof. exact request_persisted_ignores_cfg_lang. Qed.

(* ================================ fallback ==================================================== *)
Theorem C18_lookup_order :
  (forall tbl key l v, alookup (key ++ us ++ l) tbl = Some v -> lookup_lang tbl key (Some l) = Some v)
  /\ (forall tbl key l, alookup (key ++ us ++ l) tbl = None -> lookup_lang tbl key (Some l) = alookup key tbl)
  /\ (forall tbl key, lookup_lang tbl key None = alookup key tbl).
Proof. exact lookup_lang_lemma. Qed.

(* templates: translation, else default entry, else not found; menu labels: translation, else
   default entry, else the title itself *)
Theorem C18_fallback_to_default : forall a l,
  (forall sym t, alookup (sym ++ us ++ l) (a_tpl a) = Some t -> rs_tpl (app_rsrc a) (Some l) sym = Ok t)
  /\ (forall sym t, alookup (sym ++ us ++ l) (a_tpl a) = None -> alookup sym (a_tpl a) = Some t ->
        rs_tpl (app_rsrc a) (Some l) sym = Ok t)
  /\ (forall sym, alookup (sym ++ us ++ l) (a_tpl a) = None -> alookup sym (a_tpl a) = None ->
        rs_tpl (app_rsrc a) (Some l) sym = Err ENotFound)
  /\ (forall title t, alookup ((title ++ menu_suffix) ++ us ++ l) (a_menu a) = Some t -> rs_menu (app_rsrc a) (Some l) title = Ok t)
  /\ (forall title t, alookup ((title ++ menu_suffix) ++ us ++ l) (a_menu a) = None -> alookup (title ++ menu_suffix) (a_menu a) = Some t ->
        rs_menu (app_rsrc a) (Some l) title = Ok t)
  /\ (forall title, alookup ((title ++ menu_suffix) ++ us ++ l) (a_menu a) = None -> alookup (title ++ menu_suffix) (a_menu a) = None ->
        rs_menu (app_rsrc a) (Some l) title = Ok title).
Proof. exact fallback_lemma. Qed.

(* ================================ unknown codes =============================================== *)
(* Full statement: "for every code the lookup does not resolve, SetLanguage leaves the state
   unchanged" — false for the empty code.  For ARBITRARY lookup functions: *)
Theorem C18_invalid_code_keeps_language_partial : forall (lk : bytes -> option bytes) st code,
  code <> [] -> lk code = None -> st_set_language lk st code = st.
Proof. exact invalid_code_keeps_language_lemma. Qed.

Theorem C18_valid_code_switches : forall (lk : bytes -> option bytes) st code c3,
  lk code = Some c3 -> s_lang (st_set_language lk st code) = Some c3.
Proof. exact valid_code_sets_language_lemma. Qed.

(* every lookup that does not resolve "" (the real one does not: lang_table) resets the language *)
Theorem C18_empty_code_resets_language : forall (lk : bytes -> option bytes) st,
  lk [] = None -> s_lang (st_set_language lk st []) = None.
Proof. exact empty_code_resets_language_lemma. Qed.
Theorem C18_real_lookup_rejects_empty : lang_lookup [] = None.
Proof. exact lang_lookup_empty. Qed.

(* at instruction level, with the real table *)
Theorem C18_invalid_result_keeps_language_partial : forall rs lang key v v' content,
  refresh rs lang key v = (v', content, SOk) ->
  content <> [] -> lang_lookup content = None -> s_lang (v_st v') = s_lang (v_st v).
Proof. exact refresh_invalid_code_lemma. Qed.
Theorem C18_valid_result_switches : forall rs lang key v v' content c3,
  refresh rs lang key v = (v', content, SOk) ->
  getf (v_st v') FLAG_LANG = true -> lang_lookup content = Some c3 -> s_lang (v_st v') = Some c3.
Proof. exact refresh_valid_code_lemma. Qed.

(* K-C18-emptylang on the engine (corpus case lang-empty of go/cmd/vh/engine.go): request 1
   selects nor ("rot"); request 2 (RELOAD lang1 answers "" with LANG) leaves the session WITHOUT a
   language: foo and, later, root come out in the default language, in both modes.  The third
   answer, the unknown code "xx" (request 4), changes nothing.  Inside request 2 the function
   `other` is still called in nor while the page is rendered in the default language. *)
Theorem C18_invalid_code_refuted_empty :
  (let '(e1, r1) := request_long ex_fuel (app_rsrc ex_app_lang) ex_cfg1 (ex_e0 ex_cfg1) [] in
   let '(e2, r2) := request_long ex_fuel (app_rsrc ex_app_lang) ex_cfg1 e1 (s2b "1") in
   s_lang (v_st (e_v e1)) = Some (s2b "nor") /\ r_out r1 = s2b "rot"
   /\ s_lang (v_st (e_v e2)) = None /\ r_out r2 = s2b "foo")
  /\ (let '(e, outs) := ex_long (app_rsrc ex_app_lang) ex_cfg1 (ex_e0 ex_cfg1) [[]; s2b "1"; s2b "0"; s2b "1"; s2b "0"] in
      outs = [s2b "rot"; s2b "foo"; s2b "root"; s2b "foo"; s2b "root"]
      /\ ex_calls (v_log (e_v e)) =
         [EvFunc (s2b "lang1") None (Some []); EvRender (s2b "root") 0 (Some (s2b "nor"));
          EvFunc (s2b "lang1") (Some (s2b "nor")) (Some (s2b "1")); EvFunc (s2b "other") (Some (s2b "nor")) (Some (s2b "1"));
          EvRender (s2b "foo") 0 None; EvRender (s2b "root") 0 None;
          EvFunc (s2b "lang1") None (Some (s2b "1")); EvFunc (s2b "other") None (Some (s2b "1"));
          EvRender (s2b "foo") 0 None; EvRender (s2b "root") 0 None])
  /\ (let '(p, outs) := ex_pers (app_rsrc ex_app_lang) ex_cfg1 ex_p0 [[]; s2b "1"; s2b "0"; s2b "1"; s2b "0"] in
      outs = [s2b "rot"; s2b "foo"; s2b "root"; s2b "foo"; s2b "root"]
      /\ option_map (fun sn => s_lang (fst sn)) (pw_store p) = Some None).
Proof. vm_compute. repeat split; reflexivity. Qed.

(* ================================ configuration =============================================== *)
(* a configured code that resolves: the fresh state is in that language with FLAG_LANG set, and so
   is the engine built around no stored session; 2032 client flags is where the uint8 byte size
   of the flag field wraps to 0 *)
Theorem C18_config_language : forall c l3,
  c_flagcount c <= 2032 -> lang_lookup (c_lang c) = Some l3 ->
  s_lang (fresh_state c) = Some l3 /\ getf (fresh_state c) FLAG_LANG = true
  /\ forall w lg, s_lang (v_st (e_v (new_engine c None w lg))) = Some l3.
Proof. exact config_language_lemma2. Qed.

(* ================================ non-vacuity ================================================= *)
(* a switch in the middle of a node (2-letter code "no" -> nor), translations for a subset only:
   the function called right after the switch, the template (translated), one menu label
   (translated), one without any entry (the title itself) and, on the next request, a function and
   a template without translation (default entry) all see nor — in both modes, and identically
   for two applications that differ only in their swa entries *)
Example C18_switch_history :
  let a := ex_app_switch (s2b "mzizi") (s2b "endelea") in
  let a' := ex_app_switch (s2b "X") [] in
  let '(e, outs) := ex_long (app_rsrc a) ex_cfg1 (ex_e0 ex_cfg1) [[]; s2b "1"] in
  let '(p, outs_p) := ex_pers (app_rsrc a) ex_cfg1 ex_p0 [[]; s2b "1"] in
  let '(e', outs') := ex_long (app_rsrc a') ex_cfg1 (ex_e0 ex_cfg1) [[]; s2b "1"] in
  outs = [s2b "rot" ++ [10] ++ s2b "1:videre" ++ [10] ++ s2b "2:stay"; s2b "foo"]
  /\ outs_p = outs /\ outs' = outs
  /\ ex_calls (v_log (e_v e)) =
     [EvFunc (s2b "lang1") None (Some []); EvFunc (s2b "other") (Some (s2b "nor")) (Some []);
      EvRender (s2b "root") 0 (Some (s2b "nor")); EvFunc (s2b "third") (Some (s2b "nor")) (Some (s2b "1"));
      EvRender (s2b "foo") 0 (Some (s2b "nor"))]
  /\ ex_calls (pw_log p) = ex_calls (v_log (e_v e))
  /\ option_map (fun sn => s_lang (fst sn)) (pw_store p) = Some (Some (s2b "nor")).
Proof. vm_compute. repeat split; reflexivity. Qed.

(* the hypotheses of the run-level theorems: the main run of the first request starts with
   lang = s_lang = None; after one iteration (LOAD lang1 answered "no" with LANG) the session is
   in nor, the flag is pending and the instruction about to run sees nor *)
Example C18_run_hypotheses :
  let rs := app_rsrc (ex_app_switch [] []) in
  let '(e, cont, s) := eng_init ex_fuel rs ex_cfg1 (ex_e0 ex_cfg1) [] in
  let c0 := exec_start ex_cfg1 e in
  fst (fst c0) = s_lang (v_st (snd c0))
  /\ option_map (fun c => (fst (fst c), s_lang (v_st (snd c)), getf (v_st (snd c)) FLAG_LANG, eff_lang (fst (fst c)) (v_st (snd c))))
       (iter_step 2 rs [] c0)
     = Some (None, Some (s2b "nor"), true, Some (s2b "nor")).
Proof. vm_compute. repeat split; reflexivity. Qed.

(* configuration: "no" resolves to nor and the very first page is in nor; "zzzz" does not resolve
   and the session has no language; a later engine configured for "sw" around the stored nor
   session keeps serving nor *)
Example C18_config_cases :
  lang_lookup (s2b "no") = Some (s2b "nor") /\ lang_lookup (s2b "zzzz") = None
  /\ (let '(e, outs) := ex_long (app_rsrc ex_app_plain) (ex_cfg_lang "no") (ex_e0 (ex_cfg_lang "no")) [[]; s2b "1"] in
      outs = [s2b "rot" ++ [10] ++ s2b "1:videre"; s2b "foo"]
      /\ ex_calls (v_log (e_v e)) = [EvFunc (s2b "other") (Some (s2b "nor")) (Some []);
                                     EvRender (s2b "root") 0 (Some (s2b "nor")); EvRender (s2b "foo") 0 (Some (s2b "nor"))])
  /\ (let '(e, outs) := ex_long (app_rsrc ex_app_plain) (ex_cfg_lang "zzzz") (ex_e0 (ex_cfg_lang "zzzz")) [[]] in
      outs = [s2b "root" ++ [10] ++ s2b "1:go on"] /\ s_lang (v_st (e_v e)) = None)
  /\ (let '(p1, r1) := request_persisted ex_fuel (app_rsrc ex_app_plain) (ex_cfg_lang "no") ex_p0 [] in
      let '(p2, r2) := request_persisted ex_fuel (app_rsrc ex_app_plain) (ex_cfg_lang "sw") p1 (s2b "1") in
      let '(p3, r3) := request_persisted ex_fuel (app_rsrc ex_app_plain) (ex_cfg_lang "sw") p2 (s2b "0") in
      r_out r3 = s2b "rot" ++ [10] ++ s2b "1:videre"
      /\ option_map (fun sn => s_lang (fst sn)) (pw_store p3) = Some (Some (s2b "nor"))).
Proof. vm_compute. repeat split; reflexivity. Qed.

(* entry function configured, language "no" configured: the very first call of _first (one per
   engine: once in long-lived, once per request in persisted operation) carries nor *)
Example C18_first_function :
  (let '(e, outs) := ex_long (app_rsrc ex_app_plain) ex_cfg_first (ex_e0 ex_cfg_first) [[]; s2b "1"] in
   ex_calls (v_log (e_v e)) =
     [EvFunc first_sym (Some (s2b "nor")) (Some []); EvFunc (s2b "other") (Some (s2b "nor")) (Some []);
      EvRender (s2b "root") 0 (Some (s2b "nor")); EvRender (s2b "foo") 0 (Some (s2b "nor"))])
  /\ (let '(p, outs) := ex_pers (app_rsrc ex_app_plain) ex_cfg_first ex_p0 [[]; s2b "1"] in
      ex_calls (pw_log p) =
        [EvFunc first_sym (Some (s2b "nor")) (Some []); EvFunc (s2b "other") (Some (s2b "nor")) (Some []);
         EvRender (s2b "root") 0 (Some (s2b "nor")); EvFunc first_sym (Some (s2b "nor")) (Some (s2b "1"));
         EvRender (s2b "foo") 0 (Some (s2b "nor"))]).
Proof. vm_compute. repeat split; reflexivity. Qed.

(* non-interference hypothesis on concrete applications *)
Example C18_agree_example :
  let a := ex_app_switch (s2b "mzizi") (s2b "endelea") in
  let a' := ex_app_switch (s2b "X") [] in
  a_code a = a_code a' /\ a_funcs a = a_funcs a'
  /\ forallb (fun k => match lookup_lang (a_tpl a) k (Some (s2b "nor")), lookup_lang (a_tpl a') k (Some (s2b "nor")) with
                       | Some x, Some y => bytes_eqb x y | None, None => true | _, _ => false end
                       && negb (match lookup_lang (a_tpl a) k (Some (s2b "swa")), lookup_lang (a_tpl a') k (Some (s2b "swa")) with
                                | Some x, Some y => bytes_eqb x y | None, None => true | _, _ => false end))
             [s2b "root"] = true.
Proof. vm_compute. repeat split; reflexivity. Qed.

Print Assumptions C18_calls_carry_instruction_language.
Print Assumptions C18_switch_exact.
Print Assumptions C18_lang_reaches_lookups_run_partial.
Print Assumptions C18_run_lang_follows_session.
Print Assumptions C18_run_function_calls.
Print Assumptions C18_lang_reaches_lookups_refuted_emptylang.
Print Assumptions C18_lang_reaches_lookups_exec.
Print Assumptions C18_lang_reaches_lookups_first.
Print Assumptions C18_lang_reaches_lookups_flush.
Print Assumptions C18_flush_noninterference.
Print Assumptions C18_flush_noninterference_app.
Print Assumptions C18_run_ignores_templates.
Print Assumptions C18_language_survives.
Print Assumptions C18_persisted_request_stores_language.
Print Assumptions C18_session_language_overrides_config.
Print Assumptions C18_lookup_order.
Print Assumptions C18_fallback_to_default.
Print Assumptions C18_invalid_code_keeps_language_partial.
Print Assumptions C18_valid_code_switches.
Print Assumptions C18_empty_code_resets_language.
Print Assumptions C18_real_lookup_rejects_empty.
Print Assumptions C18_invalid_result_keeps_language_partial.
Print Assumptions C18_valid_result_switches.
Print Assumptions C18_invalid_code_refuted_empty.
Print Assumptions C18_config_language.
