(* C08 — No sequence of client inputs can crash the engine or corrupt a session
   (composed safety theorem over the VM / engine model; lemmas in proofs/SafetyProofs.v;
   the component-level totality theorems are in props/C08.v).

   FULL STATEMENT (properties.jsonl, DESIGN section 6): for every well-formed application
   (wf_app_b a c: every move target exists, a catch node is defined, flags in range, no node moves
   to itself, every cycle of moves passes a HALT), every history of client inputs (valid or
   unknown selectors, empty input, arbitrary bytes, over-long input), every fuel, and both
   drivers (long-lived engine / one engine per request over the stored session):
     (a) no request panics (r_exec is never SPanic, r_flush never FPanic; SFuel / FFuel is the
         model's "out of fuel", not a panic);
     (b) after every request the session is consistent: cache_levels = len(path) + 1, CacheProofs'
         CInv (usage counter = summed value lengths, capacity respected, each symbol in one
         scope, a limit recorded for each live symbol), and the stored snapshot can be loaded
         into a new engine that again satisfies the invariant.
   The model REFUTES the full statement in four classes, so what is proved is:

   (a) C08_run_never_panics             Vm.Run never panics and keeps the invariant VInv, for every
                                        resource satisfying rs_wf (codes decode completely into
                                        instructions with in-range flags; tables never panic;
                                        scripted results have in-range flag lists), all fuel,
                                        code, machine states in the invariant.  No finding excluded.
       C08_render_never_panics          same for Vm.Render (which runs MOVE _catch on a browse error)
       C08_request_never_panics_partial one request on ANY engine state / stored session in the
                                        invariant, both drivers; guard FirstOk: no entry function,
                                        or the engine is initialised, or it has not executed and its
                                        position admits State.Down("_first")
       C08_history_never_panics_partial all histories from a new session, both drivers; guards:
                                        cfg_okb c (root is an encodable symbol, FlagCount + 8 <= 2040,
                                        CacheSize < 2^32) and c_first c = None
       C08_history_never_panics_first_long_partial
                                        with an entry function, long-lived engine: the first request is
                                        safe, and if it initialises the engine all later histories are
       refutations: C08_history_never_panics_refuted_first_depth (NEW, confirmed on the Go code:
                    "maxlevel" panic), C08_history_never_panics_refuted_first_fail (NEW, confirmed:
                    "down into same node" panic), C08_history_never_panics_refuted_flagcount (NEW,
                    confirmed: index out of range; toByteSize is a uint8)
   (b) C08_session_consistent_partial   guards additionally has_croak a = false (K-C08-croak) and
                                        vals_small (values 4 GiB below the uint32 wrap of the usage counter)
       C08_session_consistent_refuted_croak

   wf_app_b is connected to the proof-level well-formedness by C08_wf_app_sound. *)
From Vise Require Import Bytes Errors Consts EngConsts Codec CacheModel StateModel NavModel NavSpec RenderModel
  VmModel EngineModel CorrBase EngineCorr EngineMon CacheProofs SafetyProofs.
Local Open Scope N_scope.

(* ---- Vm.Run / Vm.Render ------------------------------------------------------------------------ *)
Theorem C08_run_never_panics : forall bits cap k rs sep fuel lang b v v' b' s,
  rs_wf bits cap k rs -> VInv bits cap k v -> cok bits k b ->
  run fuel rs sep lang b v = (v', b', s) ->
  (forall n, s <> SPanic n) /\ VInv bits cap k v' /\ cok bits k b'.
Proof. exact run_no_panic. Qed.

Theorem C08_fuel_is_not_panic : forall n, SFuel <> SPanic n.
Proof. exact fuel_not_panic. Qed.

Theorem C08_render_never_panics : forall bits cap k rs sep fuel lang v v' r,
  rs_wf bits cap k rs -> VInv bits cap k v ->
  vm_render fuel rs sep lang v = (v', r) -> (forall n, r <> RRPanic n) /\ VInv bits cap k v'.
Proof. exact vm_render_no_panic. Qed.

(* the decidable well-formedness of corr/EngineMon.v gives the resource well-formedness *)
Theorem C08_wf_app_sound : forall a c,
  wf_app_b a c = true -> rs_wf (cfg_bits c) (c_cachesize c) false (app_rsrc a).
Proof. exact wf_app_rs_wf. Qed.
Theorem C08_wf_app_sound_consistent : forall a c,
  wf_app_b a c = true -> has_croak a = false -> vals_small (c_cachesize c) a = true ->
  rs_wf (cfg_bits c) (c_cachesize c) true (app_rsrc a).
Proof. exact wf_app_rs_wf_consistent. Qed.

(* ---- one request, both drivers (k = false: safety; k = true: safety + consistency) -------------- *)
Theorem C08_request_never_panics_partial : forall a c k fuel input,
  wf_app_b a c = true -> cfg_okb c = true ->
  (k = true -> has_croak a = false /\ vals_small (c_cachesize c) a = true) ->
  (forall e, EInv (cfg_bits c) (c_cachesize c) k e -> FirstOk (cfg_bits c) (c_cachesize c) k c e ->
     resp_no_panic (snd (request_long fuel (app_rsrc a) c e input))
     /\ EInv (cfg_bits c) (c_cachesize c) k (fst (request_long fuel (app_rsrc a) c e input)))
  /\ (forall p, PInv (cfg_bits c) (c_cachesize c) k p ->
     FirstOk (cfg_bits c) (c_cachesize c) k c (new_engine c (pw_store p) (pw_w p) (pw_log p)) ->
     resp_no_panic (snd (request_persisted fuel (app_rsrc a) c p input))
     /\ PInv (cfg_bits c) (c_cachesize c) k (fst (request_persisted fuel (app_rsrc a) c p input))).
Proof. exact request_no_panic. Qed.

(* ---- all histories ------------------------------------------------------------------------------- *)
Theorem C08_history_never_panics_partial : forall a c w lg h,
  wf_app_b a c = true -> cfg_okb c = true -> c_first c = None ->
  Forall resp_no_panic (snd (hist_long (app_rsrc a) c (new_engine c None w lg) h))
  /\ Forall resp_no_panic (snd (hist_pers (app_rsrc a) c (mkPw None w lg false) h)).
Proof. exact history_no_panic. Qed.

Theorem C08_history_never_panics_first_long_partial : forall a c fuel input h,
  wf_app_b a c = true -> cfg_okb c = true ->
  resp_no_panic (snd (request_long fuel (app_rsrc a) c (new_engine c None [] []) input))
  /\ (e_initd (fst (request_long fuel (app_rsrc a) c (new_engine c None [] []) input)) = true ->
      Forall resp_no_panic
        (snd (hist_long (app_rsrc a) c (fst (request_long fuel (app_rsrc a) c (new_engine c None [] []) input)) h))).
Proof. exact history_no_panic_first_long. Qed.

Theorem C08_history_never_panics_refuted_first_depth :
  wf_app_b wit_deep_app wit_deep_cfg = true /\ cfg_okb wit_deep_cfg = true
  /\ map (fun r => (r_exec r, r_flush r))
         (snd (hist_pers (app_rsrc wit_deep_app) wit_deep_cfg (mkPw None [] [] false) [(3000%nat, []); (3000%nat, s2b "1")]))
     = [(SOk, FErr ENotFound); (SPanic 23, FPanic 23)].
Proof. exact no_panic_refuted_first_depth. Qed.

Theorem C08_history_never_panics_refuted_first_fail :
  wf_app_b wit_fail_app wit_fail_cfg = true /\ cfg_okb wit_fail_cfg = true
  /\ map (fun r => (r_exec r, r_flush r))
         (snd (hist_long (app_rsrc wit_fail_app) wit_fail_cfg (new_engine wit_fail_cfg None [] []) [(100%nat, []); (100%nat, [])]))
     = [(SOk, FOk); (SPanic 24, FPanic 24)].
Proof. exact no_panic_refuted_first_fail. Qed.

Theorem C08_history_never_panics_refuted_flagcount :
  wf_app_b wit_flags_app wit_flags_cfg = true /\ cfg_okb wit_flags_cfg = false
  /\ c_first wit_flags_cfg = None
  /\ map (fun r => (r_exec r, r_flush r))
         (snd (hist_long (app_rsrc wit_flags_app) wit_flags_cfg (new_engine wit_flags_cfg None [] []) [(100%nat, [])]))
     = [(SPanic 20, FPanic 20)].
Proof. exact no_panic_refuted_flagcount. Qed.

(* ---- consistency ----------------------------------------------------------------------------------- *)
Theorem C08_session_consistent_partial : forall a c w lg h,
  wf_app_b a c = true -> cfg_okb c = true -> c_first c = None ->
  has_croak a = false -> vals_small (c_cachesize c) a = true ->
  (let e := fst (hist_long (app_rsrc a) c (new_engine c None w lg) h) in
   session_consistent (v_st (e_v e)) (v_ca (e_v e)))
  /\ match pw_store (fst (hist_pers (app_rsrc a) c (mkPw None w lg false) h)) with
     | Some (st, ca) => session_consistent st ca
     | None => True
     end.
Proof. exact history_consistent_partial. Qed.

Theorem C08_session_consistent_refuted_croak :
  wf_app_b wit_croak_app wit_croak_cfg = true /\ cfg_okb wit_croak_cfg = true
  /\ c_first wit_croak_cfg = None /\ vals_small (c_cachesize wit_croak_cfg) wit_croak_app = true
  /\ has_croak wit_croak_app = true
  /\ (let e := fst (hist_long (app_rsrc wit_croak_app) wit_croak_cfg (new_engine wit_croak_cfg None [] []) [(100%nat, [])]) in
      cache_levels (v_ca (e_v e)) = 1 /\ len (s_path (v_st (e_v e))) = 2
      /\ cache_levels (v_ca (e_v e)) <> len (s_path (v_st (e_v e))) + 1)
  /\ match pw_store (fst (hist_pers (app_rsrc wit_croak_app) wit_croak_cfg (mkPw None [] [] false) [(100%nat, [])])) with
     | Some (st, ca) => cache_levels ca <> len (s_path st) + 1
     | None => False
     end.
Proof. exact consistent_refuted_croak. Qed.

(* ---- non-vacuity ------------------------------------------------------------------------------------ *)
(* an application with LOAD, MAP, a menu, INCMP, CATCH and a _catch node that ascends meets every guard *)
Example C08_guards_inhabited :
  wf_app_b wit_app wit_cfg = true /\ cfg_okb wit_cfg = true /\ c_first wit_cfg = None
  /\ has_croak wit_app = false /\ vals_small (c_cachesize wit_cfg) wit_app = true.
Proof. vm_compute. repeat split. Qed.
(* ... and its history (start, valid selector, junk, 300 bytes, unknown selector, ascent, no fuel)
   renders pages, refuses input, visits _catch, and ends with SFuel: the theorems are about runs
   that do something *)
Example C08_history_nontrivial :
  map resp_view (snd (hist_long (app_rsrc wit_app) wit_cfg (new_engine wit_cfg None [] []) wit_hist)) = wit_trace
  /\ map resp_view (snd (hist_pers (app_rsrc wit_app) wit_cfg (mkPw None [] [] false) wit_hist)) = wit_trace.
Proof. vm_compute. split; reflexivity. Qed.
(* the invariants of the request / run theorems are inhabited (both levels) *)
Example C08_invariant_inhabited : forall k, EInv (cfg_bits wit_cfg) (c_cachesize wit_cfg) k (new_engine wit_cfg None [] []).
Proof. exact wit_invariant. Qed.
Example C08_rs_wf_inhabited : rs_wf (cfg_bits wit_cfg) (c_cachesize wit_cfg) true (app_rsrc wit_app).
Proof. exact wit_rs_wf. Qed.
(* the entry-function theorem's premise "initialised after the first request" is satisfiable *)
Example C08_first_long_inhabited :
  wf_app_b wit_app wit_first_cfg = true /\ cfg_okb wit_first_cfg = true
  /\ e_initd (fst (request_long 200 (app_rsrc wit_app) wit_first_cfg (new_engine wit_first_cfg None [] []) [])) = true.
Proof. vm_compute. repeat split. Qed.

Print Assumptions C08_run_never_panics.
Print Assumptions C08_render_never_panics.
Print Assumptions C08_wf_app_sound.
Print Assumptions C08_wf_app_sound_consistent.
Print Assumptions C08_request_never_panics_partial.
Print Assumptions C08_history_never_panics_partial.
Print Assumptions C08_history_never_panics_first_long_partial.
Print Assumptions C08_history_never_panics_refuted_first_depth.
Print Assumptions C08_history_never_panics_refuted_first_fail.
Print Assumptions C08_history_never_panics_refuted_flagcount.
Print Assumptions C08_session_consistent_partial.
Print Assumptions C08_session_consistent_refuted_croak.
