(* C01 (page level) — every rendered page fits the configured output size; an Ok page is the
   whole instantiated template followed by the whole menu.  The engine-level theorems
   (Vm.Render, Flush) are stated elsewhere on top of these. *)
From Coq Require Import Lia.
From Vise Require Import Bytes Errors CacheModel RenderModel RenderProofs.
Local Open Scope N_scope.

(* for all templates, value maps, menus, browse configurations, error prefixes, cursors left in
   the sizer and indices: an Ok page is at most outputSize bytes long.  Nothing is appended
   after the final Sizer.Check.  (len out < 2^32: Check compares uint32(len(s)).) *)
Theorem C01_render_fits : forall c gt gm pg sym idx out pg' z,
  p_sizer pg = Some z -> 0 < z_out z -> len out < 4294967296 ->
  page_render c gt gm pg sym idx = (Ok out, pg') -> len out <= z_out z.
Proof. exact page_render_fits. Qed.

(* no silent truncation — PARTIAL.  An Ok output is exactly
     instantiate(error prefix + template + extra, values of that page) ++ ["\n" ++ menu text]
   where every symbol that is not a sink (not zero-size, not the sizer's sink, not the
   internal keys "" and "_menu") is instantiated with its FULL mapped value, and the menu text
   is the complete output of Menu.Render for the menu as prepare left it.  Not stated here:
   that the sink symbol's value is exactly the page's rows (that is C02_pages_partition_partial
   about joinSink/GetAt; tying the sizer's sink name to the zero-size symbol of the map needs
   the invariant "every Map happened with the sizer attached", which the VM maintains). *)
Theorem C01_no_silent_truncation_partial : forall c gt gm pg sym idx out pg',
  page_render c gt gm pg sym idx = (Ok out, pg') ->
  exists src items vals' body mtext vals pg1,
    gt sym = Ok src
    /\ tpl_parse (tpl_source (p_err pg) (p_extra pg') src) = Some items
    /\ tpl_exec items vals' = Ok body
    /\ out = body ++ opt_menu mtext
    /\ (forall k, k <> [] -> k <> menu_sink_key -> cache_reserved c k <> Ok 0 ->
          (forall z', p_sizer pg' = Some z' -> k <> z_sink z') ->
          alookup k vals' = alookup k (p_map pg))
    /\ page_prepare c gt gm pg sym idx = (Ok vals, pg1)
    /\ match p_menu pg1 with
       | Some m1 => fst (menu_render_st gm m1 idx) = Ok mtext
       | None => mtext = []
       end.
Proof. exact page_render_shape. Qed.

(* non-vacuity: the K-C02-budget page at size 13 renders page 0 in 11 bytes, and at size 7 the
   same page (8 bytes of template and rows) is refused rather than cut *)
Example C01page_nonvacuous :
  fst (page_render wit_budget_cache wit_budget_tpl (fun k => Ok k) wit_budget_page (s2b "node") 0)
    = Ok (s2b "T" ++ [nl] ++ s2b "a" ++ [nl] ++ s2b "11:next")
  /\ is_err (fst (page_render wit_budget_cache wit_budget_tpl (fun k => Ok k)
                    (wit_budget_page_at 7) (s2b "node") 0)) = true.
Proof. vm_compute. auto. Qed.

Print Assumptions C01_render_fits.
Print Assumptions C01_no_silent_truncation_partial.
