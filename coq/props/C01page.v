(* C01 (page level) — every rendered page fits the configured output size; an Ok page is the
   whole instantiated template followed by the whole menu.  The engine-level theorems
   (Vm.Render, Flush) are stated elsewhere on top of these. *)
From Coq Require Import Lia.
From Vise Require Import Bytes Errors CacheModel RenderModel RenderProofs.
Local Open Scope N_scope.

(* for all templates, value maps, menus, browse configurations, error prefixes, cursors left in
   the sizer and indices: an Ok page is at most outputSize bytes long.  Nothing is appended
   after the final Sizer.Check.  (len out < 2^32: Check compares uint32(len(s)).) *)
Theorem C01_render_fits : forall c gt gm pg sym idx out pg' z,
  p_sizer pg = Some z -> 0 < z_out z -> len out < 4294967296 ->
  page_render c gt gm pg sym idx = (Ok out, pg') -> len out <= z_out z.
Proof. exact page_render_fits. Qed.

(* no silent truncation — PARTIAL.  An Ok output is exactly
     instantiate(error prefix + template + extra, values of that page) ++ ["\n" ++ menu text]
   where every symbol that is not a sink (not zero-size, not the sizer's sink, not the
   internal keys "" and "_menu") is instantiated with its FULL mapped value, and the menu text
   is the complete output of Menu.Render for the menu as prepare left it.  Not stated here:
   that the sink symbol's value is exactly the page's rows (that is C02_pages_partition_partial
   about joinSink/GetAt; tying the sizer's sink name to the zero-size symbol of the map needs
   the invariant "every Map happened with the sizer attached", which the VM maintains). *)
Theorem C01_no_silent_truncation_partial : forall c gt gm pg sym idx out pg',
  page_render c gt gm pg sym idx = (Ok out, pg') ->
  exists src items vals' body mtext vals pg1,
    gt sym = Ok src
    /\ tpl_parse (tpl_source (p_err pg) (p_extra pg') src) = Some items
    /\ tpl_exec items vals' = Ok body
    /\ out = body ++ opt_menu mtext
    /\ (forall k, k <> [] -> k <> menu_sink_key -> cache_reserved c k <> Ok 0 ->
          (forall z', p_sizer pg' = Some z' -> k <> z_sink z') ->
          alookup k vals' = alookup k (p_map pg))
    /\ page_prepare c gt gm pg sym idx = (Ok vals, pg1)
    /\ match p_menu pg1 with
       | Some m1 => fst (menu_render_st gm m1 idx) = Ok mtext
       | None => mtext = []
       end.
Proof. exact page_render_shape. Qed.

(* the combined statement, on a page with one symbol sink under the C02 guards (see
   C02_offered_page_renders_page_partial): the n pages are a partition of the sink rows into
   contiguous blocks, and page i is EXACTLY  xa ++ (the whole rows of block i, LF-joined) ++ xb ++
   ["\n" ++ all ordinary menu lines ++ the browse lines of page i],  where xa / xb are the template
   text before / after the sink instantiated with the FULL mapped values — nothing is cut. *)
Theorem C01_page_content_exact_partial : forall c gt gm pg sym z0 m k v src a b s pg3,
  p_sizer pg = Some z0 -> z_crsrs z0 = [] -> z_sink z0 = k -> 0 < z_out z0 -> z_out z0 < 4294967296 ->
  p_menu pg = Some m -> m_sink m = false -> m_keep m = true -> m_page_count m = 0 ->
  b_next_avail (m_browse m) = true -> b_prev_avail (m_browse m) = true ->
  m_sep m = default_sep ->
  title_for gm m (b_next_title (m_browse m)) = Ok (b_next_title (m_browse m)) ->
  title_for gm m (b_prev_title (m_browse m)) = Ok (b_prev_title (m_browse m)) ->
  k <> [] -> single_sink c k (p_map pg) -> alookup k (p_map pg) = Some v ->
  (forall x, is_panic (gt x) = false) ->
  gt sym = Ok src -> tpl_parse (tpl_source (p_err pg) (p_extra pg) src) = Some (a ++ TVar k :: b) ->
  tmentions k a = false -> tmentions k b = false ->
  page_render_inner gt gm (page_set_sizer pg (Some (sizer_add_cursor z0 0))) sym (blank k (p_map pg)) 0 = (Ok s, pg3) ->
  len s < 4294967296 ->
  rows_ok (split_on nl v) = true -> rows_size (split_on nl v) < 4294967296 -> len (split_on nl v) < 65536 ->
  budget_ok (split_on nl v) (z_out z0 - len s) (browse_sizes (m_browse m)) = true ->
  exists n r cs (pages : list (list bytes)) xa xb lines,
    join_sink (split_on nl v) (z_out z0 - len s) (browse_sizes (m_browse m)) [0] = (Ok (r, n), cs)
    /\ List.concat pages = split_on nl v /\ len pages = n /\ 0 < n
    /\ (forall w, (forall nm, nm <> k -> alookup nm w = alookup nm (p_map pg)) ->
          tpl_exec a w = Ok xa /\ tpl_exec b w = Ok xb)
    /\ menu_lines (title_for gm m) (m_sep m) (m_items m) = Some lines
    /\ (forall i p, nth_error pages i = Some p ->
          exists pg', page_render c gt gm pg sym (N.of_nat i)
            = (Ok ((xa ++ join_with [nl] p ++ xb)
                   ++ opt_menu (join_with [nl] (lines ++ browse_lines (m_browse m) default_sep
                                                           (N.of_nat i + 1 <? n) (0 <? N.of_nat i)))), pg'))
    /\ (forall i, n <= i -> exists e, fst (page_render c gt gm pg sym i) = Err e).
Proof. exact page_render_exact. Qed.

(* non-vacuity: the K-C02-budget page at size 13 renders page 0 in 11 bytes, and at size 7 the
   same page (8 bytes of template and rows) is refused rather than cut *)
Example C01page_nonvacuous :
  fst (page_render wit_budget_cache wit_budget_tpl (fun k => Ok k) wit_budget_page (s2b "node") 0)
    = Ok (s2b "T" ++ [nl] ++ s2b "a" ++ [nl] ++ s2b "11:next")
  /\ is_err (fst (page_render wit_budget_cache wit_budget_tpl (fun k => Ok k)
                    (wit_budget_page_at 7) (s2b "node") 0)) = true.
Proof. vm_compute. auto. Qed.

Print Assumptions C01_render_fits.
Print Assumptions C01_no_silent_truncation_partial.
Print Assumptions C01_page_content_exact_partial.
