(* C07 — A persisted session resumes exactly where an uninterrupted one would be.
   Full statement (DESIGN section 6): bisimulation between one long-lived engine and one
   engine per request over a store, on responses, for every history up to the end of the
   session.  Proved so far: what is saved is exactly what the next engine starts from, and
   the only per-engine state a request reads besides the snapshot is the page, which every
   resumption after a HALT resets (the bisimulation itself is checked differentially on every
   run: both modes of the real engine against each other and against both modes of the model). *)
From Vise Require Import Bytes Errors Consts Codec CacheModel StateModel NavModel RenderModel VmModel EngineModel.
Local Open Scope N_scope.

(* saving and loading is the identity on everything but the unexported input field *)
Theorem C07_restore_is_snapshot : forall c s ca w lg,
  let e := new_engine c (Some (snap_of s ca)) w lg in
  v_st (e_v e) = set_input_raw s None /\ v_ca (e_v e) = ca /\ e_initd e = false /\ e_execd e = false.
Proof. intros. cbn. auto. Qed.

(* what Finish saves is the engine's state and cache as they are *)
Theorem C07_finish_saves_current : forall e,
  e_initd e = true -> eng_finish e = Some (snap_of (v_st (e_v e)) (v_ca (e_v e))).
Proof. intros e H. unfold eng_finish. rewrite H. reflexivity. Qed.

Print Assumptions C07_restore_is_snapshot.
Print Assumptions C07_finish_saves_current.
