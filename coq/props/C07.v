(* C07 — A persisted session resumes exactly where an uninterrupted one would be.

   Full statement (properties.jsonl, DESIGN section 6): for every application, configuration and input
   history, serving the history with one long-lived engine and serving it one request at a time — each
   request with a new engine around the stored session, saved back by Finish — gives the same
   continue/stop results, Exec errors, outputs and Flush errors, up to and including the first response
   that ends the session ("calling Exec again has undefined effects" for the long-lived engine):

     forall fuel a c h,
       upto_stop (snd (serve_long fuel (app_rsrc a) c (new_engine c None [] []) h))
       = upto_stop (snd (serve_pers fuel (app_rsrc a) c (mkPw None [] [] false) h)).

   This is FALSE of the model (and of the code: each refutation below was replayed on the real engine).
   Two classes of divergence remain, each excluded by a named decidable guard:

   * K-C07-first     `c_first c = None`: an entry function runs once per ENGINE (C07_refuted_first).
   * K-C07-longbad   `input_ok_b i`: an input that is over-long AND fails the input pattern.  The long-lived
                     engine (init already done) checks the pattern first and answers (continue, error); a new
                     engine's init calls SetInput first and answers (stop, error) (C07_refuted_longbad).

   A third class, found by this proof, is REPAIRED (K-C07-browse, commit c373f7d): Menu.Reset kept the browse
   configuration (next/previous entries and their availability flags), so a node that set them, HALTed, and
   then built another paginated page without moving showed the entries in the long-lived engine only.  With the
   repair the reset that resumes execution after a HALT erases everything a new engine's page does not have
   either, the guard `no_browse_leak_b` of the earlier version of this file is gone, and the former refutation
   witness is the regression example C07_browse_regression.

   Two technical guards:
   * `no_browse_err_b`: the render of the request's Flush raised no BrowseError.  After the BrowseError
     fallback (reset, MOVE _catch, render again) DIRTY stays set and the long-lived engine renders once
     more at the start of the next request.  The RESPONSE of the request with the fallback is still proved
     equal; only the continuation is not covered.  No generated or corpus case reaches this path, and
     rendering on a freshly reset sizer seems unable to (the sink cursor lookup fails first with a generic
     error); not proved.
   * `cfg_flags_ok_b c`: the flag field of a new session has at least one byte (FlagCount + 8 <= 2040; beyond
     that Go's uint8 byte count wraps to 0 and every flag access panics, which the model's total
     getf/setf do not show).

   What is proved (all applications, resources, configurations, histories, fuel; fuel exhaustion and
   panics are not excluded: they occur on both sides alike and end the comparison):
   C07_step_simulation_partial, C07_first_step_partial, C07_history_simulation_partial, and the
   congruences they rest on: `run`, `vm_render` and `page_render` respect page equivalence (nothing reads
   the sizer's member table / running total, the only unpersisted state that survives a resumption after
   HALT besides the constant separator, resource and output size). *)
From Vise Require Import Bytes Errors Consts EngConsts Codec CacheModel StateModel NavModel RenderModel VmModel EngineModel
  EngineProofs BisimProofs.
Local Open Scope N_scope.

(* saving and loading is the identity on everything but the unexported input field *)
Theorem C07_restore_is_snapshot : forall c s ca w lg,
  let e := new_engine c (Some (snap_of s ca)) w lg in
  v_st (e_v e) = set_input_raw s None /\ v_ca (e_v e) = ca /\ e_initd e = false /\ e_execd e = false.
Proof. intros. cbn. auto. Qed.

(* what Finish saves is the engine's state and cache as they are *)
Theorem C07_finish_saves_current : forall e,
  e_initd e = true -> eng_finish e = Some (snap_of (v_st (e_v e)) (v_ca (e_v e))).
Proof. intros e H. unfold eng_finish. rewrite H. reflexivity. Qed.

(* the long-lived engine's Flush at the start of the next request is a no-op when the previous one completed *)
Theorem C07_reflush_is_noop : forall fuel rs c e,
  e_execd e = true -> getf (v_st (e_v e)) FLAG_DIRTY = false -> e_exiting e = false -> e_exit e = [] ->
  eng_flush fuel rs c e = (e, [], FOk).
Proof. exact eng_flush_idle. Qed.

(* in general, for an engine whose last Flush rendered what there was to render and completed a pending
   session end: the second Flush hands out the exit value again and changes nothing — or, when the exit value
   alone exceeds the output size, fails, again without changing anything: such an engine is stuck (every
   later request fails in prepare).  An exit value exists only after a response with cont = false, i.e.
   beyond the prefix C07 compares; persisted operation starts over instead *)
Theorem C07_reflush_settled : forall fuel rs c e,
  e_execd e = true -> getf (v_st (e_v e)) FLAG_DIRTY = false -> e_exiting e = false ->
  eng_flush fuel rs c e = if exit_over c (e_exit e) then (e, [], FErr EGen) else (e, e_exit e, FOk).
Proof. exact eng_flush_settled. Qed.

(* ---- congruences: nothing reads what the equivalence ignores ----------------------------------------------- *)
(* Page.Render (render_respects_equiv) *)
Theorem C07_render_respects_equiv : forall c gt gm a b sym idx, peq false a b ->
  fst (page_render c gt gm a sym idx) = fst (page_render c gt gm b sym idx)
  /\ peq false (snd (page_render c gt gm a sym idx)) (snd (page_render c gt gm b sym idx)).
Proof. exact page_render_peq. Qed.

(* Vm.Run, for both equivalences (lk = true: also up to the browse configuration) *)
Theorem C07_run_respects_equiv : forall lk f rs sep lang bb a b, veq lk a b ->
  heq lk (run f rs sep lang bb a) (run f rs sep lang bb b).
Proof. exact run_veq. Qed.

(* Vm.Render including the BrowseError fallback *)
Theorem C07_vm_render_respects_equiv : forall fuel rs sep lang a b, veq false a b ->
  snd (vm_render fuel rs sep lang a) = snd (vm_render fuel rs sep lang b)
  /\ veq false (fst (vm_render fuel rs sep lang a)) (fst (vm_render fuel rs sep lang b)).
Proof. exact vm_render_veq. Qed.

(* a run that hands back pending code without error stopped at a HALT: WAIT is set, so the next run starts
   by resetting the page *)
Theorem C07_cont_means_wait : forall c f rs lang bb v v' b',
  flags_ok (v_st v) ->
  run f rs (c_sep c) lang bb v = (v', b', SOk) -> b' <> [] -> getf (v_st v') FLAG_WAIT = true.
Proof. exact run_stops_at_halt. Qed.

(* ---- the simulation ------------------------------------------------------------------------------------------- *)
Theorem C07_step_simulation_partial : forall fuel rs c e p i,
  c_first c = None -> R c e p -> input_ok_b i = true ->
  let '(e', rl) := request_long fuel rs c e i in
  let '(p', rp) := request_persisted fuel rs c p i in
  rl = rp /\
  (r_cont rl = true -> flush_alive (r_flush rl) -> no_browse_err_b fuel rs c e i = true -> R c e' p').
Proof. exact step_simulation. Qed.

Theorem C07_first_step_partial : forall fuel rs c w lg t i,
  c_first c = None -> cfg_flags_ok c ->
  let '(e', rl) := request_long fuel rs c (new_engine c None w lg) i in
  let '(p', rp) := request_persisted fuel rs c (mkPw None w lg t) i in
  rl = rp /\
  (r_cont rl = true -> flush_alive (r_flush rl) -> no_browse_err_b fuel rs c (new_engine c None w lg) i = true -> R c e' p').
Proof. exact first_step. Qed.

Theorem C07_history_simulation_partial : forall fuel rs c h,
  c_first c = None -> cfg_flags_ok_b c = true ->
  c07_guard_b fuel rs c (new_engine c None [] []) h = true ->
  upto_stop (snd (serve_long fuel rs c (new_engine c None [] []) h))
  = upto_stop (snd (serve_pers fuel rs c (mkPw None [] [] false) h)).
Proof. exact history_simulation_b. Qed.

(* ---- refutations ------------------------------------------------------------------------------------------------ *)
Theorem C07_refuted_first :
  exists (a : app) (c : config) (h : list bytes),
    c_first c <> None /\ cfg_flags_ok_b c = true /\ forallb input_ok_b h = true
    /\ upto_stop (snd (serve_long 1000 (app_rsrc a) c (new_engine c None [] []) h))
       <> upto_stop (snd (serve_pers 1000 (app_rsrc a) c (mkPw None [] [] false) h)).
Proof. exact refuted_first. Qed.

Theorem C07_refuted_longbad :
  exists (a : app) (c : config) (h : list bytes),
    c_first c = None /\ cfg_flags_ok_b c = true /\ forallb input_ok_b h = false
    /\ map r_cont (snd (serve_long 1000 (app_rsrc a) c (new_engine c None [] []) h)) = [true; true]
    /\ map r_cont (snd (serve_pers 1000 (app_rsrc a) c (mkPw None [] [] false) h)) = [true; false]
    /\ upto_stop (snd (serve_long 1000 (app_rsrc a) c (new_engine c None [] []) h))
       <> upto_stop (snd (serve_pers 1000 (app_rsrc a) c (mkPw None [] [] false) h)).
Proof. exact refuted_longbad. Qed.

(* ---- non-vacuity ---------------------------------------------------------------------------------------------------- *)
(* a paginated application (sink of three pages, next/previous entries) browsed forward and back, with a
   malformed input, an unknown selector, a descent and an ascent, and a final over-long input: every guard
   holds at every step although the long-lived menu carries a browse configuration across each HALT *)
Example C07_ex_guards :
  c_first w_cfg28 = None /\ cfg_flags_ok_b w_cfg28 = true
  /\ c07_guard_b 2000 (app_rsrc w_app_pages) w_cfg28 (new_engine w_cfg28 None [] []) w_hist_pages = true
  /\ List.length (upto_stop (snd (serve_long 2000 (app_rsrc w_app_pages) w_cfg28 (new_engine w_cfg28 None [] []) w_hist_pages))) = 10%nat
  /\ nth 2 (map r_out (snd (serve_pers 2000 (app_rsrc w_app_pages) w_cfg28 (mkPw None [] [] false) w_hist_pages))) []
     = [114; 32; 115; 101; 118; 101; 110; 10; 101; 105; 103; 104; 116; 10; 50; 50; 58; 112; 114; 118]
  /\ option_map m_browse (p_menu (v_pg (e_v (fst (serve_long 2000 (app_rsrc w_app_pages) w_cfg28 (new_engine w_cfg28 None [] []) [[]; [49; 49]])))))
     <> option_map m_browse (p_menu (P0 w_cfg28)).
Proof.
  split; [reflexivity|]. split; [vm_compute; reflexivity|]. split; [vm_compute; reflexivity|].
  split; [vm_compute; reflexivity|]. split; [vm_compute; reflexivity|].
  intros H. vm_compute in H. discriminate.
Qed.

(* the relation holds after a request and relates an engine whose page differs from a new engine's *)
Example C07_ex_step :
  let e := fst (serve_long 2000 (app_rsrc w_app_pages) w_cfg28 (new_engine w_cfg28 None [] []) [[]; [49; 49]]) in
  e_initd e = true /\ e_execd e = true /\ getf (v_st (e_v e)) FLAG_WAIT = true
  /\ v_pg (e_v e) <> P0 w_cfg28
  /\ input_ok_b [49; 49] = true
  /\ no_browse_err_b 2000 (app_rsrc w_app_pages) w_cfg28 e [49; 49] = true.
Proof.
  cbv zeta. split; [vm_compute; reflexivity|]. split; [vm_compute; reflexivity|]. split; [vm_compute; reflexivity|].
  split; [intros H; vm_compute in H; discriminate|]. split; [vm_compute; reflexivity|]. vm_compute; reflexivity.
Qed.

(* regression for the repaired K-C07-browse: "MNEXT nx 11; HALT; LOAD sk 0; MAP sk; HALT", output size 20,
   history "", "x" — the long-lived engine used to answer "root\n11:nx" *)
Example C07_browse_regression :
  c_first w_cfg20 = None /\ cfg_flags_ok_b w_cfg20 = true
  /\ c07_guard_b 1000 (app_rsrc w_app_leak) w_cfg20 (new_engine w_cfg20 None [] []) [[]; [120]] = true
  /\ map r_out (snd (serve_long 1000 (app_rsrc w_app_leak) w_cfg20 (new_engine w_cfg20 None [] []) [[]; [120]]))
     = [[114; 111; 111; 116]; [114; 111; 111; 116]]
  /\ map r_out (snd (serve_pers 1000 (app_rsrc w_app_leak) w_cfg20 (mkPw None [] [] false) [[]; [120]]))
     = [[114; 111; 111; 116]; [114; 111; 111; 116]]
  /\ snd (serve_long 1000 (app_rsrc w_app_leak) w_cfg20 (new_engine w_cfg20 None [] []) [[]; [120]])
     = snd (serve_pers 1000 (app_rsrc w_app_leak) w_cfg20 (mkPw None [] [] false) [[]; [120]]).
Proof. exact browse_regression. Qed.

(* the relation itself holds there (so C07_step_simulation_partial applies to a state that is not the initial one) *)
Example C07_ex_R :
  R w_cfg28 (fst (serve_long 2000 (app_rsrc w_app_pages) w_cfg28 (new_engine w_cfg28 None [] []) [[]; [49; 49]]))
            (fst (serve_pers 2000 (app_rsrc w_app_pages) w_cfg28 (mkPw None [] [] false) [[]; [49; 49]])).
Proof.
  unfold R, Linv.
  split; [|split; [vm_compute; reflexivity|split; vm_compute; reflexivity]].
  split; [vm_compute; reflexivity|]. split; [vm_compute; reflexivity|]. split; [vm_compute; reflexivity|].
  split; [intros H; vm_compute in H; discriminate|].
  split; [vm_compute; reflexivity|]. split; [vm_compute; reflexivity|].
  split; [vm_compute; repeat constructor|].
  split; [vm_compute; reflexivity|].
  intros H. vm_compute in H. discriminate.
Qed.

Print Assumptions C07_restore_is_snapshot.
Print Assumptions C07_finish_saves_current.
Print Assumptions C07_reflush_is_noop.
Print Assumptions C07_reflush_settled.
Print Assumptions C07_render_respects_equiv.
Print Assumptions C07_run_respects_equiv.
Print Assumptions C07_vm_render_respects_equiv.
Print Assumptions C07_cont_means_wait.
Print Assumptions C07_step_simulation_partial.
Print Assumptions C07_first_step_partial.
Print Assumptions C07_history_simulation_partial.
Print Assumptions C07_refuted_first.
Print Assumptions C07_refuted_longbad.
