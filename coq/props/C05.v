(* C05 — Loaded symbols live exactly as long as their stack level.

   Statement (properties.jsonl): "A LOAD runs the external function at most once while its symbol
   is visible and stores the result at the current stack level under the declared size limit; the
   value stays readable from that level and every deeper level and is gone as soon as execution
   ascends above the level where it was loaded, so returning to the node loads it afresh.  RELOAD
   re-runs the function and replaces the value (also with an empty result) under the same limit,
   MAP exposes a value to the template only until the next move, and a result larger than its
   limit is never stored or shown."  For all programs, all external function results (any length,
   empty, multi-line), all histories that move up and down the stack.

   Vocabulary.  `lives c k = Some (n, v)`: the first scope (frame index, outermost = 0) of cache c
   that defines k is n and holds v; by C05_lives_meaning this is `frame_of c k = Some n` together
   with `cache_get c k = Ok v`, and `lives c k = None` is `cache_get c k = Err EGen`.  Under the
   session invariant `nav_inv st ca` (scopes = stack depth + 1) the top scope has index
   `len (s_path st)`: "the current stack level" (C05_current_level).  `has_func rs k`: the
   resource has a function for k.  `calls k v`: how often the world has seen k called.
   `run_prelude`, `run_step`: the prelude of the run loop and one iteration of it
   (`run (S fuel) = match run_step with Done r => r | Next l b v => run fuel l b v`, lemma run_S).

   Everything below is for ALL resources, machines, symbols, sizes, result lengths (N, no 16-bit
   truncation), cache histories and move sequences.  One clause of the statement is false of the
   code and is stated as _partial + _refuted: CATCH is a move that does not reset the page, so what
   was mapped before it is still exposed after it (C05_map_until_next_move_refuted_catch, finding
   candidate K-C05-catchmap). *)
From Vise Require Import Bytes Errors Consts EngConsts Codec CacheModel StateModel NavModel NavSpec
  RenderModel VmModel EngineModel CacheProofs SymbolProofs.
Local Open Scope N_scope.

Theorem C05_lives_meaning : forall c k n v,
  lives c k = Some (n, v) <-> (frame_of c k = Some n /\ cache_get c k = Ok v).
Proof. exact lives_iff. Qed.
Theorem C05_lives_none_meaning : forall c k, lives c k = None <-> cache_get c k = Err EGen.
Proof. exact lives_none_iff. Qed.
Theorem C05_current_level : forall st ca, nav_inv st ca -> top_index ca = len (s_path st).
Proof. exact top_index_nav. Qed.

(* ---- LOAD ------------------------------------------------------------------------------ *)
(* visible: no call (the log, the world counters, the cache, the state, the page: the machine
   itself is returned), the rest of the code untouched *)
Theorem C05_load_once_while_visible : forall rs lang sym sz b v val,
  cache_get (v_ca v) sym = Ok val ->
  run_load rs lang sym sz b v = (v, b, SOk).
Proof. exact load_once_while_visible_lemma. Qed.

(* not visible: exactly one call (one EvFunc event, the counter of sym incremented by one); on
   success the result sits in the TOP scope with the declared limit w16 sz, respects it, and is
   what Get returns; no other symbol moves; on failure the cache is what it was *)
Theorem C05_load_stores_at_current_level : forall rs lang sym sz b v e v' b' s,
  cache_get (v_ca v) sym = Err e -> has_func rs sym = true ->
  run_load rs lang sym sz b v = (v', b', s) ->
  b' = b
  /\ v_log v' = EvFunc sym lang (s_input (v_st v)) :: v_log v
  /\ v_w v' = aset sym (calls sym v + 1) (v_w v)
  /\ v_pg v' = v_pg v
  /\ (s = SOk ->
      exists v1 content, refresh rs lang sym v = (v1, content, SOk)
        /\ lives (v_ca v') sym = Some (top_index (v_ca v), content)
        /\ cache_reserved (v_ca v') sym = Ok (w16 sz)
        /\ (0 < w16 sz -> len content <= w16 sz)
        /\ cache_levels (v_ca v') = cache_levels (v_ca v)
        /\ forall k2, k2 <> sym -> lives (v_ca v') k2 = lives (v_ca v) k2)
  /\ (s <> SOk -> v_ca v' = v_ca v).
Proof. exact load_stores_lemma. Qed.

(* no function for the symbol: no call, an error, nothing stored *)
Theorem C05_load_without_function : forall rs lang sym sz b v e,
  cache_get (v_ca v) sym = Err e -> has_func rs sym = false ->
  run_load rs lang sym sz b v = (v, b, SErr EGen (Some (rs_nofunc rs sym))).
Proof. exact load_no_func. Qed.

(* ---- lifetime: the cache histories that stay inside the scope ----------------------------- *)
(* any number of descents (OPush), loads and reloads of OTHER symbols, reads, returns from deeper
   levels (OPop while more than n+1 scopes exist): same scope, same value.  keeps_scope is the
   decidable description of these histories; it excludes exactly: a Pop that leaves scope n, the
   CROAK-style Reset (unless n = 0) and an Update of k itself *)
Theorem C05_visible_from_deeper_levels : forall ops c k n v,
  lives c k = Some (n, v) -> keeps_scope k n c ops = true -> lives (cache_run c ops) k = Some (n, v).
Proof. exact visible_from_deeper_levels_lemma. Qed.

(* the same over moves: any sequence of applyTarget calls (successful or refused) during which the
   stack never gets shorter than n *)
Theorem C05_visible_while_not_above : forall ts st ca st2 ca2 log k n v,
  nav_inv st ca -> lives ca k = Some (n, v) -> stays_at_or_below n st ca ts = true ->
  nav_run st ca ts = (st2, ca2, log) -> lives ca2 k = Some (n, v).
Proof. exact kept_by_nav_run. Qed.

(* ---- lifetime: the ascent ------------------------------------------------------------------ *)
(* m pops from a cache with at most n + m scopes (this includes the floor: the last scope is
   emptied, not removed) *)
Theorem C05_gone_after_pops : forall m c k n v,
  c_frames c <> [] -> lives c k = Some (n, v) -> cache_levels c <= n + N.of_nat m ->
  cache_get (pops m c) k = Err EGen.
Proof. exact gone_after_pops_get. Qed.

(* one move ("_", "^", or anything else) that ends with fewer than n nodes on the stack *)
Theorem C05_gone_after_ascent_step : forall t st ca st' ca' sym r k n v,
  nav_inv st ca -> lives ca k = Some (n, v) ->
  apply_target t st ca = (st', ca', sym, r) -> len (s_path st') < n ->
  lives ca' k = None.
Proof. exact gone_after_ascent_step. Qed.

(* any sequence of moves that ends above the level where k was loaded *)
Theorem C05_gone_after_ascent : forall ts st ca st2 ca2 log k n v,
  nav_inv st ca -> lives ca k = Some (n, v) ->
  nav_run st ca ts = (st2, ca2, log) -> len (s_path st2) < n ->
  cache_get ca2 k = Err EGen.
Proof. exact gone_after_ascent_lemma. Qed.

(* ... so the next LOAD calls the function again *)
Theorem C05_reload_after_return : forall ts st ca st2 ca2 log k n val rs lang sz b v v' b' s,
  nav_inv st ca -> lives ca k = Some (n, val) ->
  nav_run st ca ts = (st2, ca2, log) -> len (s_path st2) < n ->
  v_ca v = ca2 -> has_func rs k = true ->
  run_load rs lang k sz b v = (v', b', s) ->
  v_log v' = EvFunc k lang (s_input (v_st v)) :: v_log v
  /\ v_w v' = aset k (calls k v + 1) (v_w v).
Proof. exact reload_after_return_lemma. Qed.

(* "exactly as long as", at instruction level: ONE instruction of any kind leaves a live symbol
   untouched, or replaces its value in place (RELOAD k only), or removes it — and then it was a
   move that ended above scope n, or a CROAK *)
Theorem C05_one_instruction : forall rs sep lang i b v v' b' s k n val,
  nav_inv (v_st v) (v_ca v) -> lives (v_ca v) k = Some (n, val) ->
  exec_instr rs sep lang i b v = (v', b', s) ->
  lives (v_ca v') k = Some (n, val)
  \/ (i = IReload k /\ exists val', lives (v_ca v') k = Some (n, val'))
  \/ (lives (v_ca v') k = None
      /\ ((exists sig mode, i = ICroak sig mode) \/ len (s_path (v_st v')) < n)).
Proof. exact exec_instr_symbol_lemma. Qed.

(* ... and along a run: one iteration of the loop leaves a live symbol in its scope (value possibly
   RELOADed), or removes it — and then the stack is shorter than n, or stack and cache are out of
   lock-step (CROAK resets the cache but not the stack: K-C08-croak) *)
Theorem C05_one_iteration : forall rs sep lang b v k n val,
  nav_inv (v_st v) (v_ca v) -> lives (v_ca v) k = Some (n, val) ->
  let vo := step_machine (run_step rs sep lang b v) in
  (exists val', lives (v_ca vo) k = Some (n, val'))
  \/ (lives (v_ca vo) k = None /\ (len (s_path (v_st vo)) < n \/ ~ nav_inv (v_st vo) (v_ca vo))).
Proof. exact step_symbol_lemma. Qed.

(* a run that stays at or below level n (reaches_within: every configuration it passes through has
   at least n nodes on the stack and the lock-step invariant) keeps the symbol visible in scope n
   at every configuration, so a LOAD of it anywhere on the way calls nothing: at most one call
   while visible, for whole runs *)
Theorem C05_run_keeps_symbol_visible : forall rs sep n k c c',
  reaches_within rs sep n c c' ->
  forall val, nav_inv (v_st (snd c)) (v_ca (snd c)) -> lives (v_ca (snd c)) k = Some (n, val) ->
  exists val', lives (v_ca (snd c')) k = Some (n, val').
Proof. exact run_symbol_visible_lemma. Qed.

Theorem C05_run_load_once : forall rs sep n k c l' b' v' val rs2 lang2 sz b2,
  reaches_within rs sep n c (l', b', v') ->
  nav_inv (v_st (snd c)) (v_ca (snd c)) -> lives (v_ca (snd c)) k = Some (n, val) ->
  run_load rs2 lang2 k sz b2 v' = (v', b2, SOk).
Proof. exact run_load_once_lemma. Qed.

(* ---- RELOAD ---------------------------------------------------------------------------------- *)
(* one call; the update is attempted with the result; accepted: value replaced IN ITS SCOPE (n is
   unchanged), limit kept and respected, other symbols untouched; refused: the cache is what it
   was (C09 roll-back); then the symbol is mapped with what the cache now holds *)
Theorem C05_reload_replaces : forall rs lang sym b v v' b' s,
  has_func rs sym = true -> run_reload rs lang sym b v = (v', b', s) ->
  b' = b
  /\ v_log v' = EvFunc sym lang (s_input (v_st v)) :: v_log v
  /\ v_w v' = aset sym (calls sym v + 1) (v_w v)
  /\ (forall v1 content, refresh rs lang sym v = (v1, content, SOk) ->
        v_ca v' = fst (cache_update_raw (v_ca v) sym content)
        /\ (snd (cache_update_raw (v_ca v) sym content) = None ->
            exists n old, lives (v_ca v) sym = Some (n, old) /\ lives (v_ca v') sym = Some (n, content)
              /\ cache_levels (v_ca v') = cache_levels (v_ca v)
              /\ (forall l, cache_reserved (v_ca v) sym = Ok l -> cache_reserved (v_ca v') sym = Ok l /\ (0 < l -> len content <= l))
              /\ forall k2, k2 <> sym -> lives (v_ca v') k2 = lives (v_ca v) k2)
        /\ (snd (cache_update_raw (v_ca v) sym content) <> None ->
            CInv (v_ca v) -> len content + c_size (v_ca v) < 4294967296 -> v_ca v' = v_ca v)
        /\ (s = SOk -> exists val, cache_get (v_ca v') sym = Ok val
                        /\ p_map (v_pg v') = aset sym val (p_map (v_pg v))))
  /\ (forall v1 content s1, refresh rs lang sym v = (v1, content, s1) -> s1 <> SOk ->
        s = s1 /\ v_ca v' = v_ca v /\ v_pg v' = v_pg v).
Proof. exact reload_replaces_lemma. Qed.

(* when the update is accepted and when it is refused: the empty string is always accepted; a
   value over the (non-zero) limit is refused for every length; every refusal is a no-op *)
Theorem C05_reload_update_cases :
  (forall c k v c', cache_update_raw c k v = (c', None) ->
     exists n old, lives c k = Some (n, old) /\ lives c' k = Some (n, v)
       /\ cache_levels c' = cache_levels c /\ c_sizes c' = c_sizes c
       /\ (forall l, cache_reserved c k = Ok l -> 0 < l -> len v <= l)
       /\ (forall k2, k2 <> k -> lives c' k2 = lives c k2))
  /\ (forall c k n old, lives c k = Some (n, old) -> exists c', cache_update_raw c k [] = (c', None))
  /\ (forall c k v l, cache_reserved c k = Ok l -> 0 < l -> l < len v -> cache_update_raw c k v = (c, Some EGen))
  /\ (forall c k v c' e, CInv c -> len v + c_size c < 4294967296 -> cache_update_raw c k v = (c', Some e) -> c' = c).
Proof. exact reload_cache_lemma. Qed.

(* ---- MAP ------------------------------------------------------------------------------------- *)
(* Full statement: "after ANY move — MOVE, a firing INCMP, a firing CATCH — and after every resume
   the map is empty".  False for CATCH (refuted below).  Partial: everything but CATCH. *)
Theorem C05_map_until_next_move_partial :
  (forall c pg k pg', page_map c pg k = Ok pg' ->
     exists val, cache_get c k = Ok val /\ p_map pg' = aset k val (p_map pg))
  /\ (forall pg, p_map (page_reset pg) = [])
  /\ (forall sep pg, p_map (vm_reset sep pg) = [])
  /\ (forall rs sep sym b v v' b' s, run_move rs sep sym b v = (v', b', s) ->
        (s = SOk -> p_map (v_pg v') = []) /\ (s <> SOk -> v_pg v' = v_pg v))
  /\ (forall rs sep dest sel b v v' b' s, run_incmp rs sep dest sel b v = (v', b', s) ->
        (v_pg v' = v_pg v /\ (v_log v' = v_log v \/ v_log v' = EvInCmp dest sel false :: v_log v))
        \/ (p_map (v_pg v') = []
            /\ exists pre nsym, v_log v' = pre ++ EvMove 1 dest nsym :: EvInCmp dest sel true :: v_log v))
  /\ (forall sep sig mode b v v' b' s, run_croak sep sig mode b v = (v', b', s) ->
        v_pg v' = v_pg v \/ p_map (v_pg v') = [])
  /\ (forall v, getf (v_st v) FLAG_WAIT = true -> p_map (v_pg (run_prelude v)) = [])
  /\ (forall v, getf (v_st v) FLAG_WAIT = false -> v_pg (run_prelude v) = v_pg v)
  /\ (forall rs sep lang i b v v' b' s, exec_instr rs sep lang i b v = (v', b', s) ->
        p_map (v_pg v') = [] \/ p_map (v_pg v') = p_map (v_pg v)
        \/ exists k val, (i = IMap k \/ i = IReload k) /\ cache_get (v_ca v') k = Ok val
                         /\ p_map (v_pg v') = aset k val (p_map (v_pg v))).
Proof. exact map_until_next_move_lemma. Qed.

(* in the loop: the instruction that runs right after a HALT is executed on a machine v0 with an
   empty map (the remainder of the iteration is spelled out so that v0 is seen to be what
   step_exec receives) *)
Theorem C05_map_emptied_on_resume : forall rs sep lang b v op b1,
  getf (v_st v) FLAG_TERMINATE = false -> getf (v_st v) FLAG_WAIT = true -> op_split b = Ok (op, b1) ->
  exists v0, p_map (v_pg v0) = [] /\ v_ca v0 = v_ca v /\
    run_step rs sep lang b v =
    match parse_args op b1 with
    | Panic n => Done (v0, b1, SPanic n)
    | _ =>
      let '(v1, b2, s) := step_exec rs sep (eff_lang lang (v_st v)) op b1 v0 in
      if op =? op_HALT then Done (v1, b2, s) else
      let '(v2, b3, s2) := err_check v1 b2 s in
      match s2 with
      | SOk =>
        match b3 with
        | [] =>
          let '(v3, b4, s3) := dead_check v2 in
          match s3 with
          | SOk => match b4 with [] => Done (v3, [], SOk) | _ => Next (eff_lang lang (v_st v)) b4 v3 end
          | _ => Done (v3, b4, s3)
          end
        | _ => Next (eff_lang lang (v_st v)) b3 v2
        end
      | _ => Done (v2, b3, s2)
      end
    end.
Proof. exact step_resume_lemma. Qed.

(* CATCH never touches the page, whatever it does to the stack and the code *)
Theorem C05_catch_keeps_the_map : forall rs sym sig mode b v v' b' s,
  run_catch rs sym sig mode b v = (v', b', s) -> v_pg v' = v_pg v.
Proof. exact run_catch_page. Qed.

(* witness: foo loads and maps aa, then leaves upwards with CATCH _ ; root's template shows
   {{.aa}} without mapping it.  The page "root one" is delivered although aa is in no scope of
   the cache any more (its level was popped); with MOVE _ in place of the CATCH the same page
   cannot be rendered (missing key), as the statement demands *)
Theorem C05_map_until_next_move_refuted_catch :
  exists a a' c,
    a = ex_app_leave (ICatch (s2b "_") 8 false) /\ a' = ex_app_leave (IMove (s2b "_")) /\
    let '(e, r) := request_long ex_fuel (app_rsrc a) c (ex_e0 c) [] in
    let '(e', r') := request_long ex_fuel (app_rsrc a') c (ex_e0 c) [] in
    r_exec r = SOk /\ r_flush r = FOk /\ r_out r = s2b "root one"
    /\ s_path (v_st (e_v e)) = [s2b "root"]
    /\ cache_get (v_ca (e_v e)) (s2b "aa") = Err EGen
    /\ alookup (s2b "aa") (p_map (v_pg (e_v e))) = Some (s2b "one")
    /\ r_exec r' = SOk /\ r_flush r' = FErr EGen /\ r_out r' = []
    /\ v_ca (e_v e') = v_ca (e_v e) /\ v_st (e_v e') = v_st (e_v e).
Proof. exists (ex_app_leave (ICatch (s2b "_") 8 false)), (ex_app_leave (IMove (s2b "_"))), ex_cfg. vm_compute. repeat split; reflexivity. Qed.

(* ---- oversize ---------------------------------------------------------------------------------- *)
(* LOAD: a result longer than a non-zero limit — for EVERY length — is an error, the cache (and
   its LastValue) is untouched, Get still fails, so no MAP of the symbol can succeed *)
Theorem C05_oversize_never_stored_or_shown : forall rs lang sym sz b v e v1 content,
  cache_get (v_ca v) sym = Err e ->
  refresh rs lang sym v = (v1, content, SOk) ->
  0 < w16 sz -> w16 sz < len content ->
  run_load rs lang sym sz b v = (v1, b, SErr EGen None)
  /\ v_ca v1 = v_ca v
  /\ cache_get (v_ca v1) sym = Err e
  /\ c_last (v_ca v1) = c_last (v_ca v)
  /\ (forall pg, page_map (v_ca v1) pg sym = Err e)
  /\ (forall b2, run_map sym b2 v1 = (v1, b2, SErr e None)).
Proof. exact oversize_load_lemma. Qed.

(* RELOAD: the oversize result is dropped, the cache is untouched, and what the page shows for
   the symbol afterwards is the OLD value (from the map or from the cache) *)
Theorem C05_oversize_reload_keeps_old : forall rs lang sym b v v1 content l v' b' s,
  refresh rs lang sym v = (v1, content, SOk) ->
  cache_reserved (v_ca v) sym = Ok l -> 0 < l -> l < len content ->
  run_reload rs lang sym b v = (v', b', s) ->
  v_ca v' = v_ca v
  /\ forall val, alookup sym (p_map (v_pg v')) = Some val ->
       alookup sym (p_map (v_pg v)) = Some val \/ cache_get (v_ca v) sym = Ok val.
Proof. exact oversize_reload_lemma. Qed.

(* ---- non-vacuity --------------------------------------------------------------------------------- *)
(* a history down and up the stack: root -> foo (LOAD aa twice, MAP) -> bar (LOAD aa, MAP) -> foo ->
   root -> foo.  The function is called exactly twice (first entry of foo, re-entry after the
   ascent to root); bar and the return to foo show the first value without a call *)
Example C05_history :
  let '(e, outs) := ex_long (app_rsrc ex_app_scope) ex_cfg (ex_e0 ex_cfg)
                      [[]; s2b "1"; s2b "2"; s2b "0"; s2b "0"; s2b "1"] in
  outs = [s2b "root"; s2b "foo one"; s2b "bar one"; s2b "foo one"; s2b "root"; s2b "foo two"]
  /\ ex_calls (v_log (e_v e)) =
     [EvRender (s2b "root") 0 None; EvFunc (s2b "aa") None (Some (s2b "1")); EvRender (s2b "foo") 0 None;
      EvRender (s2b "bar") 0 None; EvRender (s2b "foo") 0 None; EvRender (s2b "root") 0 None;
      EvFunc (s2b "aa") None (Some (s2b "1")); EvRender (s2b "foo") 0 None]
  /\ lives (v_ca (e_v e)) (s2b "aa") = Some (2, s2b "two").
Proof. vm_compute. repeat split; reflexivity. Qed.

(* the hypotheses of the lifetime theorems on a reachable state: at bar (depth 3) aa lives in
   scope 2 with the lock-step invariant; one "_" keeps it, two lose it, "^" loses it; and a cache
   history of descents, other loads and returns keeps it *)
Example C05_lifetime_hypotheses :
  let '(e, _) := ex_long (app_rsrc ex_app_scope) ex_cfg (ex_e0 ex_cfg) [[]; s2b "1"; s2b "2"] in
  let st := v_st (e_v e) in let ca := v_ca (e_v e) in
  cache_levels ca = len (s_path st) + 1
  /\ lives ca (s2b "aa") = Some (2, s2b "one")
  /\ stays_at_or_below 2 st ca [t_up; s2b "baz"; t_next] = true
  /\ (let '(st2, ca2, _) := nav_run st ca [t_up; s2b "baz"; t_next] in cache_get ca2 (s2b "aa") = Ok (s2b "one"))
  /\ (let '(st2, ca2, _) := nav_run st ca [t_up; t_up] in len (s_path st2) <? 2 = true /\ cache_get ca2 (s2b "aa") = Err EGen)
  /\ (let '(st2, ca2, _) := nav_run st ca [t_top] in len (s_path st2) <? 2 = true /\ cache_get ca2 (s2b "aa") = Err EGen)
  /\ (let ops := [OPush; OAdd (s2b "bb") (s2b "x") 0; OUpdate (s2b "bb") []; OPop; OPop; OPush] in
      keeps_scope (s2b "aa") 2 ca ops = true /\ cache_get (cache_run ca ops) (s2b "aa") = Ok (s2b "one")).
Proof. vm_compute. repeat split; reflexivity. Qed.

(* the hypotheses of the run-level theorems: the main run of the request "1" (root -> foo); after
   two iterations (INCMP fired, first LOAD aa stored) aa lives in scope 2 under the lock-step
   invariant; the next two iterations (second LOAD aa, MAP aa) stay within level 2 *)
Example C05_run_hypotheses :
  let rs := app_rsrc ex_app_scope in
  let '(e1, _) := request_long ex_fuel rs ex_cfg (ex_e0 ex_cfg) [] in
  match ex_exec_conf rs ex_cfg e1 (s2b "1") with
  | Some c0 =>
    match iter_step 2 rs [] c0 with
    | Some c1 =>
      nav_inv_b (v_st (snd c1)) (v_ca (snd c1)) = true
      /\ lives (v_ca (snd c1)) (s2b "aa") = Some (2, s2b "one")
      /\ option_map (fun c : option bytes * bytes * vmst => (parse_all (snd (fst c)), lives (v_ca (snd c)) (s2b "aa"), func_count (v_log (snd c))))
           (iter_within 2 2 rs [] c1)
         = Some (Ok [IHalt; IInCmp (s2b "_") (s2b "0"); IInCmp (s2b "bar") (s2b "2")], Some (2, s2b "one"), 1%nat)
    | None => False
    end
  | None => False
  end.
Proof. vm_compute. repeat split; reflexivity. Qed.

(* RELOAD under limit 5: the empty result replaces the value; an over-limit result (7 bytes, and
   65541 bytes) is dropped and the old value stays mapped; a fitting one replaces it *)
Example C05_reload_cases :
  let go second := let '(e, outs) := ex_long (app_rsrc (ex_app_reload second)) ex_cfg (ex_e0 ex_cfg) [[]] in
                   (outs, lives (v_ca (e_v e)) (s2b "aa")) in
  go [] = ([s2b "root []"], Some (1, []))
  /\ go (s2b "two") = ([s2b "root [two]"], Some (1, s2b "two"))
  /\ go (s2b "toolong") = ([s2b "root [one]"], Some (1, s2b "one"))
  /\ go (rep 120 65541) = ([s2b "root [one]"], Some (1, s2b "one")).
Proof. vm_compute. repeat split; reflexivity. Qed.

(* LOAD of a 65541-byte result under limit 5 (a length whose low 16 bits are 5): refused *)
Example C05_oversize_load :
  let rs := app_rsrc (mkApp [] [] [] [(s2b "aa", [mkFres (rep 120 65541) false 0 [] [] false])]) in
  let v := e_v (ex_e0 ex_cfg) in
  let '(v', b', s) := run_load rs None (s2b "aa") 5 [] v in
  s = SErr EGen None /\ v_ca v' = v_ca v /\ func_count (v_log v') = 1%nat
  /\ w16 (len (rep 120 65541)) = 5.
Proof. vm_compute. repeat split; reflexivity. Qed.

Print Assumptions C05_lives_meaning.
Print Assumptions C05_lives_none_meaning.
Print Assumptions C05_current_level.
Print Assumptions C05_load_once_while_visible.
Print Assumptions C05_load_stores_at_current_level.
Print Assumptions C05_load_without_function.
Print Assumptions C05_visible_from_deeper_levels.
Print Assumptions C05_visible_while_not_above.
Print Assumptions C05_gone_after_pops.
Print Assumptions C05_gone_after_ascent_step.
Print Assumptions C05_gone_after_ascent.
Print Assumptions C05_reload_after_return.
Print Assumptions C05_one_instruction.
Print Assumptions C05_one_iteration.
Print Assumptions C05_run_keeps_symbol_visible.
Print Assumptions C05_run_load_once.
Print Assumptions C05_reload_replaces.
Print Assumptions C05_reload_update_cases.
Print Assumptions C05_map_until_next_move_partial.
Print Assumptions C05_map_emptied_on_resume.
Print Assumptions C05_catch_keeps_the_map.
Print Assumptions C05_map_until_next_move_refuted_catch.
Print Assumptions C05_oversize_never_stored_or_shown.
Print Assumptions C05_oversize_reload_keeps_old.
