(* C18 (gettext resource) — The selected language reaches every lookup: resource/gettext.go.

   PoResource.GetTemplate / GetMenu resolve a symbol in two steps (model/PoModel.v, tied to the real
   code by the driver `po`): the KEY domain (x-vise / x-vise_menu) of the DEFAULT language maps the
   symbol to a source string (`po_source`); then the domain "default" of the REQUEST language — the
   "Language" value of the context, the default language when there is none — translates that
   string, provided a locale was registered for it (NewPoResource registers the default language,
   WithLanguage the others).  gotext returns its argument when there is no entry or the entry's
   msgstr is empty.  `potables` are the entries of every .po file under the locale path, keyed by
   (language, domain).

   C18 for this resource: "every template and menu-label lookup is made in the selected language,
   and a lookup with no translation returns the default-language entry".  Proved for ALL tables,
   symbols, languages and registrations, reading "default-language entry" as the source string.
   Under the stricter reading — "what a default-language session is shown" — one class fails: the
   default language's OWN "default" domain is applied to default-language sessions only, so when it
   rewrites a source string, a session in a language without translation is shown the raw source
   string and not what default-language users see (K-C18-po-defaultdomain: _partial + _refuted). *)
From Vise Require Import Bytes Errors Consts EngConsts Codec CacheModel StateModel NavModel NavSpec
  RenderModel VmModel EngineModel PoModel SymbolProofs PoProofs.
Local Open Scope N_scope.

(* GetD: a non-empty msgstr is returned, a missing entry or an EMPTY msgstr gives the key itself *)
Theorem C18_po_getd :
  (forall tbl key v, alookup key tbl = Some v -> v <> [] -> po_getd tbl key = v)
  /\ (forall tbl key, alookup key tbl = None -> po_getd tbl key = key)
  /\ (forall tbl key, alookup key tbl = Some [] -> po_getd tbl key = key).
Proof. exact (conj po_getd_present (conj po_getd_absent po_getd_empty)). Qed.

(* translation, then default: with ln the request language (context value, else the default) and
   src the source string of the symbol *)
Theorem C18_po_translation_then_default : forall t dflt regs ctx sym menu,
  let ln := po_req_lang dflt ctx in
  let src := po_source t dflt sym menu in
  (forall s, alookup sym (po_table t dflt (po_keydom menu)) = Some s -> s <> [] -> src = s)
  /\ (alookup sym (po_table t dflt (po_keydom menu)) = None \/ alookup sym (po_table t dflt (po_keydom menu)) = Some [] -> src = sym)
  /\ (forall tr, po_registered dflt regs ln = true -> alookup src (po_table t ln DDefault) = Some tr -> tr <> [] ->
        po_get t dflt regs ctx sym menu = tr)
  /\ (po_registered dflt regs ln = true ->
        alookup src (po_table t ln DDefault) = None \/ alookup src (po_table t ln DDefault) = Some [] ->
        po_get t dflt regs ctx sym menu = src)
  /\ (po_registered dflt regs ln = false -> po_get t dflt regs ctx sym menu = src)
  /\ po_get t dflt regs None sym menu = po_get t dflt regs (Some dflt) sym menu.
Proof. exact po_translation_then_default_lemma. Qed.

(* closed form *)
Theorem C18_po_get_closed_form : forall t dflt regs ctx sym menu,
  po_get t dflt regs ctx sym menu =
  let ln := po_req_lang dflt ctx in
  let src := po_source t dflt sym menu in
  if po_registered dflt regs ln
  then match po_translation (po_table t ln DDefault) src with Some tr => tr | None => src end
  else src.
Proof. exact po_get_unfold. Qed.

(* non-interference: only the default language's key domain, the request language's "default"
   domain and the registration of the request language matter — no other file, no other language *)
Theorem C18_po_noninterference : forall t t' dflt regs regs' ctx sym menu,
  let ln := po_req_lang dflt ctx in
  po_table t dflt (po_keydom menu) = po_table t' dflt (po_keydom menu) ->
  po_table t ln DDefault = po_table t' ln DDefault ->
  po_registered dflt regs ln = po_registered dflt regs' ln ->
  po_get t dflt regs ctx sym menu = po_get t' dflt regs' ctx sym menu.
Proof. exact po_noninterference_lemma. Qed.

(* at engine level: Flush of an engine whose templates and menu labels come from a PoResource is
   the same for any two locale trees that agree on the default language and on the session language *)
Theorem C18_po_flush_noninterference : forall fuel base t t' dflt regs c e,
  po_agree_on dflt (po_req_lang dflt (s_lang (v_st (e_v e)))) t t' ->
  eng_flush fuel (po_rsrc base t dflt regs) c e = eng_flush fuel (po_rsrc base t' dflt regs) c e.
Proof. exact po_flush_noninterference. Qed.

(* ---- the stricter reading ------------------------------------------------------------------------ *)
(* Full statement (false): "a request language without translation of the source string (or without
   locale) gets what the default-language session gets".  Partial, guard po_default_domain_neutral:
   the default language's own "default" domain does not rewrite the source string. *)
Theorem C18_po_fallback_is_default_session_partial : forall t dflt regs l sym menu,
  po_default_domain_neutral t dflt sym menu = true ->
  (po_registered dflt regs l = false \/ po_translation (po_table t l DDefault) (po_source t dflt sym menu) = None) ->
  po_get t dflt regs (Some l) sym menu = po_get t dflt regs (Some dflt) sym menu.
Proof. exact po_fallback_default_session_partial. Qed.

(* eng maps foo to "Foo source" and its own default.po rewrites that to "Foo ENG"; nor (registered,
   entry with empty msgstr), fra (registered, no file) and spa (not registered) show "Foo source" *)
Theorem C18_po_fallback_refuted_defaultdomain :
  exists t dflt regs sym,
    let src := po_source t dflt sym false in
    po_default_domain_neutral t dflt sym false = false
    /\ po_get t dflt regs (Some dflt) sym false = s2b "Foo ENG"
    /\ po_get t dflt regs None sym false = s2b "Foo ENG"
    /\ (po_registered dflt regs (s2b "nor") = true /\ po_translation (po_table t (s2b "nor") DDefault) src = None
        /\ po_get t dflt regs (Some (s2b "nor")) sym false = s2b "Foo source")
    /\ (po_registered dflt regs (s2b "fra") = true /\ po_translation (po_table t (s2b "fra") DDefault) src = None
        /\ po_get t dflt regs (Some (s2b "fra")) sym false = s2b "Foo source")
    /\ (po_registered dflt regs (s2b "spa") = false
        /\ po_get t dflt regs (Some (s2b "spa")) sym false = s2b "Foo source").
Proof.
  exists ex_po_tables, (s2b "eng"), [s2b "nor"; s2b "fra"], (s2b "foo"). vm_compute.
  repeat split; reflexivity.
Qed.

(* ---- non-vacuity ------------------------------------------------------------------------------------ *)
(* eng default, nor and fra registered, swa on disk but not registered: every clause of the theorem
   is met by some call *)
Example C18_po_cases :
  let g := po_get ex_po_tables2 (s2b "eng") [s2b "nor"; s2b "fra"] in
  g (Some (s2b "nor")) (s2b "root") false = s2b "Velkommen"      (* key entry, translated *)
  /\ g (Some (s2b "nor")) (s2b "back") true = s2b "Tilbake"       (* menu key domain, translated *)
  /\ g (Some (s2b "nor")) (s2b "back") false = s2b "back"         (* no template key entry, no translation of the symbol *)
  /\ g (Some (s2b "nor")) (s2b "help") false = s2b "hjelp"        (* empty key msgstr: the symbol, translated as text *)
  /\ g (Some (s2b "fra")) (s2b "root") false = s2b "Welcome"      (* registered, no file: source string *)
  /\ g (Some (s2b "swa")) (s2b "root") false = s2b "Welcome"      (* file on disk, not registered: source string *)
  /\ g (Some (s2b "eng")) (s2b "root") false = s2b "Welcome"
  /\ g None (s2b "root") false = s2b "Welcome"
  /\ g (Some (s2b "nor")) (s2b "nokey") true = s2b "nokey".
Proof. vm_compute. repeat split; reflexivity. Qed.

(* non-interference hypotheses on concrete trees: dropping swa's files and nor's ignored key file *)
Example C18_po_agree_example :
  let t' := [ (s2b "eng", DKeyTpl, [(s2b "root", s2b "Welcome"); (s2b "help", [])]);
              (s2b "eng", DKeyMenu, [(s2b "back", s2b "Go back")]);
              (s2b "nor", DDefault, [(s2b "Welcome", s2b "Velkommen"); (s2b "Go back", s2b "Tilbake"); (s2b "help", s2b "hjelp")]) ] in
  (forall d, po_table ex_po_tables2 (s2b "eng") d = po_table t' (s2b "eng") d)
  /\ po_table ex_po_tables2 (s2b "nor") DDefault = po_table t' (s2b "nor") DDefault
  /\ po_table ex_po_tables2 (s2b "swa") DDefault <> po_table t' (s2b "swa") DDefault
  /\ po_table ex_po_tables2 (s2b "nor") DKeyTpl <> po_table t' (s2b "nor") DKeyTpl.
Proof. cbv zeta. split; [intros d; destruct d; vm_compute; reflexivity|]. vm_compute. repeat split; try reflexivity; discriminate. Qed.

Print Assumptions C18_po_getd.
Print Assumptions C18_po_translation_then_default.
Print Assumptions C18_po_get_closed_form.
Print Assumptions C18_po_noninterference.
Print Assumptions C18_po_flush_noninterference.
Print Assumptions C18_po_fallback_is_default_session_partial.
Print Assumptions C18_po_fallback_refuted_defaultdomain.
