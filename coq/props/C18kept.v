(* C18 — kept-state serving mode (a new engine object per request around the SAME State and Cache
   objects: engine.NewEngine(cfg, rs).WithState(st).WithMemory(ca), no persister).

   Full statement: a language the session has selected survives the change of engine object: the
   engine built for the next request holds the state unchanged (the configured language is applied,
   together with FLAG_LANG, only while the state has NO language), so the request is the long-lived
   driver's request on new_engine around the kept pair — the engine every C18 theorem of
   props/C18.v about Exec, runFirst and Flush is stated for — and what is kept afterwards is what
   that engine holds.  Tied to the code by the driver enginekept (corr/EngineKeptCorr.v); the
   seeded change C18-m6 (ensureState applying the configured language unconditionally) breaks
   C18_kept_engine_keeps_selected_language's counterpart in the code and is caught there. *)
From Coq Require Import List NArith Bool.
From Vise Require Import Bytes Errors Consts Codec CacheModel StateModel NavModel RenderModel VmModel EngineModel CorrBase EngineCorr EngineMon EngineKeptCorr KeptProofs.
Import ListNotations.
Local Open Scope N_scope.

Theorem C18_kept_engine_keeps_selected_language : forall c st ca w lg l, s_lang st = Some l ->
  s_lang (v_st (e_v (kept_engine c (st, ca) w lg))) = Some l
  /\ kept_engine c (st, ca) w lg = new_engine c (Some (st, ca)) w lg.
Proof. exact kept_engine_language. Qed.
Print Assumptions C18_kept_engine_keeps_selected_language.

Theorem C18_kept_state_configured_only_without_language :
  (forall c st l, s_lang st = Some l -> kept_state c st = st)
  /\ (forall c st, c_lang c = [] -> kept_state c st = st)
  /\ (forall c st x r, c_lang c = x :: r -> s_lang st = None ->
        kept_state c st = setf (st_set_language lang_lookup st (c_lang c)) FLAG_LANG).
Proof. exact (conj kept_state_selected (conj kept_state_no_config kept_state_configured)). Qed.
Print Assumptions C18_kept_state_configured_only_without_language.

Theorem C18_request_kept_is_request_long : forall fuel rs c st ca w lg tn input,
  request_kept fuel rs c (mkPw (Some (st, ca)) w lg tn) input
  = let '(e, r) := request_long fuel rs c (kept_engine c (st, ca) w lg) input in
    (mkPw (Some (snap_of (v_st (e_v e)) (v_ca (e_v e)))) (v_w (e_v e)) (v_log (e_v e)) (tn || v_taint (e_v e)), r).
Proof. exact request_kept_is_request_long. Qed.
Print Assumptions C18_request_kept_is_request_long.

Theorem C18_request_kept_starts_like_persisted : forall fuel rs c st ca w lg tn input l,
  s_lang st = Some l ->
  fst (request_kept fuel rs c (mkPw (Some (st, ca)) w lg tn) input)
  = let '(e, r) := request_long fuel rs c (new_engine c (Some (st, ca)) w lg) input in
    mkPw (Some (snap_of (v_st (e_v e)) (v_ca (e_v e)))) (v_w (e_v e)) (v_log (e_v e)) (tn || v_taint (e_v e)).
Proof. exact request_kept_starts_like_persisted. Qed.
Print Assumptions C18_request_kept_starts_like_persisted.

(* non-vacuity: configured language "nor", a function switches to "swh": the next request's engine
   still has "swh" (the corpus case kept-language-switch) *)
Example C18_kept_nonvacuous :
  let st := st_set_language lang_lookup (new_state 1) (s2b "swh") in
  s_lang st = Some (s2b "swh")
  /\ s_lang (v_st (e_v (kept_engine (mkCfg 0 [] 1 0 (s2b "nor") [] false None) (st, new_cache 0) [] []))) = Some (s2b "swh").
Proof. vm_compute. split; reflexivity. Qed.
