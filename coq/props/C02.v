(* C02 — Paginated sink content is complete, ordered and navigable (render level). *)
From Coq Require Import Lia.
From Vise Require Import Bytes Errors CacheModel RenderModel RenderProofs.
Local Open Scope N_scope.

(* FULL STATEMENT (false on the current code, see the refutations below):
     forall vs rem ms r n cs, vs <> [] -> join_sink vs rem ms [0] = (Ok (r, n), cs) ->
       the rows shown on pages 0..n-1 (Sizer.GetAt), concatenated, are vs; every such page is
       delivered; pages past n are errors; and every page, with the browse entries it carries,
       fits `remaining`.
   It is proved for all row lists, all `remaining`, all label sizes under the decidable guards
     rows_ok    := no row is empty (K-C02-emptyrow), no row holds a NUL byte (K-C02-nul; the
                   in-page separator) or an LF (never the case for rows from strings.Split);
     budget_ok  := next + prev + 4 + longest row <= remaining < 2^31 (K-C02-budget);
   and the fixed-width limits  len vs < 2^16 (uint16 page count) and total size < 2^32 (uint32
   cursors), which are not findings but the stated range of the paginator. *)

(* pages 0..n-1 are delivered, show every row exactly once and in order (page i is the i-th
   block of a partition of vs into contiguous non-empty blocks), one cursor per page, and
   every index from n on is an error *)
Theorem C02_pages_partition_partial : forall vs remaining ms r n cs,
  vs <> [] -> rows_ok vs = true -> rows_size vs < 4294967296 -> len vs < 65536 ->
  join_sink vs remaining ms [0] = (Ok (r, n), cs) ->
  (forall i, i < n -> is_ok (sink_page r cs i) = true)
  /\ List.concat (map (fun i => shown_rows r cs (N.of_nat i)) (seq 0 (N.to_nat n))) = vs
  /\ len cs = n
  /\ (exists pages : list (list bytes),
        List.concat pages = vs /\ len pages = n /\ Forall (fun p => p <> []) pages
        /\ forall i p, nth_error pages i = Some p -> shown_rows r cs (N.of_nat i) = p)
  /\ (forall i, n <= i -> sink_page r cs i = Err EGen).
Proof. exact join_sink_partition. Qed.

(* rows ["", "aaaa"]: the empty first row is dropped *)
Theorem C02_pages_partition_refuted_emptyrow :
  exists vs remaining ms, vs <> [] /\ rows_ok vs = false /\ partition_ok vs remaining ms = false.
Proof. exists [[]; s2b "aaaa"], 38, (0, 7, 7, 14). split; [discriminate|]. vm_compute. auto. Qed.

(* rows ["a\000b", "cc"]: the NUL is displayed as a line break, so the page shows three rows *)
Theorem C02_pages_partition_refuted_nul :
  exists vs remaining ms, vs <> [] /\ rows_ok vs = false /\ partition_ok vs remaining ms = false.
Proof. exists [[97; 0; 98]; s2b "cc"], 30, (0, 7, 7, 14). split; [discriminate|]. vm_compute. auto. Qed.

(* template text, error prefix, non-sink values and the ordinary menu lines are on every page
   that renders, and the browse lines are exactly: "next" iff i+1 < n, "previous" iff 0 < i *)
Theorem C02_static_parts_repeat : forall c gt gm pg sym i out pg' z0 m,
  p_sizer pg = Some z0 -> p_menu pg = Some m ->
  m_sink m = false -> m_keep m = true -> m_sep m <> [] ->
  b_next_avail (m_browse m) = true -> b_prev_avail (m_browse m) = true ->
  page_render c gt gm pg sym i = (Ok out, pg') ->
  exists src items vals' body lines blines n,
    gt sym = Ok src
    /\ tpl_parse (tpl_source (p_err pg) (p_extra pg) src) = Some items
    /\ tpl_exec items vals' = Ok body
    /\ (forall k, k <> [] -> k <> menu_sink_key -> cache_reserved c k <> Ok 0 ->
          (forall z', p_sizer pg' = Some z' -> k <> z_sink z') ->
          alookup k vals' = alookup k (p_map pg))
    /\ menu_lines (title_for gm m) (m_sep m) (m_items m) = Some lines
    /\ (n = 0 -> i = 0 /\ blines = [])
    /\ (0 < n -> i < n /\
          menu_lines (title_for gm m) (m_sep m) (browse_items (m_browse m) (i + 1 <? n) (0 <? i)) = Some blines)
    /\ out = body ++ opt_menu (join_with [nl] (lines ++ blines)).
Proof. exact page_render_static. Qed.

(* Menu.Render of a paged menu: next shown at i <-> i+1 < n, previous <-> 0 < i *)
Theorem C02_browse_entries : forall gm m i txt m',
  b_next_avail (m_browse m) = true -> b_prev_avail (m_browse m) = true ->
  0 < m_page_count m -> m_sep m <> [] ->
  menu_render_st gm m i = (Ok txt, m') ->
  i < m_page_count m
  /\ exists lines blines,
       menu_lines (title_for gm m) (m_sep m) (m_items m) = Some lines
       /\ menu_lines (title_for gm m) (m_sep m)
            (browse_items (m_browse m) (i + 1 <? m_page_count m) (0 <? i)) = Some blines
       /\ txt = join_with [nl] (lines ++ blines).
Proof. exact menu_render_text. Qed.

(* asking for a page past the end (n pages; any i >= n, i > 0) of a page that has a menu — the
   VM always attaches one — is an error ... *)
Theorem C02_past_end_is_error : forall c gt gm pg sym i vals pg1 m1,
  (forall k, is_panic (gt k) = false) ->
  page_prepare c gt gm pg sym i = (Ok vals, pg1) -> p_menu pg1 = Some m1 ->
  m_page_count m1 <= i -> 0 < i ->
  exists e, fst (page_render c gt gm pg sym i) = Err e.
Proof. exact page_render_past_end. Qed.

(* ... and no index, page, template or menu reaches a Go panic site of Page.Render *)
Theorem C02_render_never_panics : forall c gt gm pg sym idx,
  (forall k, is_panic (gt k) = false) -> (forall k, is_panic (gm k) = false) ->
  is_panic (fst (page_render c gt gm pg sym idx)) = false.
Proof. exact page_render_no_panic. Qed.

(* every offered page renders — the paginator (joinSink/GetAt): under budget_ok joinSink
   succeeds and every page plus the browse entries it carries (as measured by Menu.Sizes, one
   LF each) fits `remaining`.  The lift to Page.Render follows below. *)
Theorem C02_offered_page_renders_partial : forall vs remaining ms,
  vs <> [] -> rows_ok vs = true -> rows_size vs < 4294967296 -> len vs < 65536 ->
  budget_ok vs remaining ms = true ->
  exists r n cs (pages : list (list bytes)),
    join_sink vs remaining ms [0] = (Ok (r, n), cs)
    /\ List.concat pages = vs /\ len pages = n
    /\ (forall i p, nth_error pages i = Some p ->
          sink_page r cs (N.of_nat i) = Ok (join_with [nl] p)
          /\ len (join_with [nl] p) + nav ms (N.of_nat i) n <= remaining).
Proof. exact join_sink_budget. Qed.

(* rows a, cccc with 11 bytes left: page 1 ("cccc" + the previous entry) needs 12 *)
Theorem C02_offered_page_renders_refuted_budget :
  exists vs remaining ms, rows_ok vs = true /\ budget_ok vs remaining ms = false
    /\ partition_ok vs remaining ms = true /\ pages_fit vs remaining ms = false.
Proof. exists [s2b "a"; s2b "cccc"], 11, (0, 7, 7, 14). vm_compute. auto. Qed.

(* the same witness through Page.Render: template "T\n{{.foo}}", size 13 — page 0 offers
   "11:next", page 1 answers "limit exceeded" *)
Theorem C02_offered_page_renders_refuted_budget_page :
  exists c gt gm pg sym,
    fst (page_render c gt gm pg sym 0) = Ok (s2b "T" ++ [nl] ++ s2b "a" ++ [nl] ++ s2b "11:next")
    /\ fst (page_render c gt gm pg sym 1) = Err EGen.
Proof.
  exists wit_budget_cache, wit_budget_tpl, (fun k => Ok k), wit_budget_page, (s2b "node").
  vm_compute. auto.
Qed.

(* every offered page renders — through Page.Render, symbol sink.  For a page as the VM builds it
   (sizer attached before the Map, fresh cursors, ordinary menu, both browse entries) with exactly
   one zero-size symbol k mapped (single_sink), a template of the placeholder fragment that
   mentions k exactly once, rows_ok, the guard excluding K-C02-labelsize (separator ":", browse
   labels resolve to themselves) and budget_ok computed from the pre-render s (the page without
   the sink): every index below the page count n of joinSink renders Ok — so every offered
   next/previous entry leads to a page that renders — and every index from n on is an error. *)
Theorem C02_offered_page_renders_page_partial : forall c gt gm pg sym z0 m k v src a b s pg3,
  p_sizer pg = Some z0 -> z_crsrs z0 = [] -> z_sink z0 = k -> 0 < z_out z0 -> z_out z0 < 4294967296 ->
  p_menu pg = Some m -> m_sink m = false -> m_keep m = true -> m_page_count m = 0 ->
  b_next_avail (m_browse m) = true -> b_prev_avail (m_browse m) = true ->
  m_sep m = default_sep ->
  title_for gm m (b_next_title (m_browse m)) = Ok (b_next_title (m_browse m)) ->
  title_for gm m (b_prev_title (m_browse m)) = Ok (b_prev_title (m_browse m)) ->
  k <> [] -> single_sink c k (p_map pg) -> alookup k (p_map pg) = Some v ->
  (forall x, is_panic (gt x) = false) ->
  gt sym = Ok src -> tpl_parse (tpl_source (p_err pg) (p_extra pg) src) = Some (a ++ TVar k :: b) ->
  tmentions k a = false -> tmentions k b = false ->
  page_render_inner gt gm (page_set_sizer pg (Some (sizer_add_cursor z0 0))) sym (blank k (p_map pg)) 0 = (Ok s, pg3) ->
  len s < 4294967296 ->
  rows_ok (split_on nl v) = true -> rows_size (split_on nl v) < 4294967296 -> len (split_on nl v) < 65536 ->
  budget_ok (split_on nl v) (z_out z0 - len s) (browse_sizes (m_browse m)) = true ->
  exists n r cs,
    join_sink (split_on nl v) (z_out z0 - len s) (browse_sizes (m_browse m)) [0] = (Ok (r, n), cs)
    /\ 0 < n
    /\ (forall i, i < n -> exists out pg', page_render c gt gm pg sym i = (Ok out, pg'))
    /\ (forall i, n <= i -> exists e, fst (page_render c gt gm pg sym i) = Err e).
Proof. exact page_offered_renders. Qed.

(* the same for the menu as sink (MSINK): the sink rows are the resolved menu lines; the template
   text around the appended "\n{{._menu}}" instantiates to xa / xb with the page's values *)
Theorem C02_offered_page_renders_msink_partial : forall c gt gm pg sym z0 m src a b xa xb lines,
  p_sizer pg = Some z0 -> z_crsrs z0 = [] -> 0 < z_out z0 -> z_out z0 < 4294967296 ->
  p_menu pg = Some m -> m_sink m = true -> m_page_count m <= 1 ->
  b_next_avail (m_browse m) = true -> b_prev_avail (m_browse m) = true ->
  m_sep m = default_sep ->
  title_for gm m (b_next_title (m_browse m)) = Ok (b_next_title (m_browse m)) ->
  title_for gm m (b_prev_title (m_browse m)) = Ok (b_prev_title (m_browse m)) ->
  NoDup (map fst (p_map pg)) -> no_sink c (p_map pg) ->
  menu_lines (title_for gm m) (m_sep m) (m_items m) = Some lines -> lines <> [] ->
  (forall x, is_panic (gt x) = false) ->
  gt sym = Ok src ->
  tpl_parse (tpl_source (p_err pg) menu_sink_extra src) = Some (a ++ TVar menu_sink_key :: b) ->
  (forall w, (forall nm, nm <> menu_sink_key -> alookup nm w = alookup nm (p_map pg)) ->
     tpl_exec a w = Ok xa /\ tpl_exec b w = Ok xb) ->
  len xa + len xb <= z_out z0 ->
  rows_ok lines = true -> rows_size lines < 4294967296 -> len lines < 65536 ->
  budget_ok lines (z_out z0 - (len xa + len xb)) (browse_sizes (m_browse m)) = true ->
  exists n r cs (pages : list (list bytes)),
    join_sink lines (z_out z0 - (len xa + len xb)) (browse_sizes (m_browse m)) [0] = (Ok (r, n), cs)
    /\ List.concat pages = lines /\ len pages = n /\ 0 < n
    /\ (forall i p, nth_error pages i = Some p ->
          exists pg', page_render c gt gm pg sym (N.of_nat i)
            = (Ok ((xa ++ join_with [nl] p ++ xb)
                   ++ opt_menu (join_with [nl] (browse_lines (m_browse m) default_sep
                                                  (N.of_nat i + 1 <? n) (0 <? N.of_nat i)))), pg'))
    /\ (forall i, i < n -> exists out pg', page_render c gt gm pg sym i = (Ok out, pg'))
    /\ (forall i, n <= i -> exists e, fst (page_render c gt gm pg sym i) = Err e).
Proof. exact page_offered_renders_msink. Qed.

(* non-vacuity: six rows over four pages satisfy every hypothesis of the partial theorems *)
Example C02_nonvacuous :
  let vs := map s2b ["aaaa"; "bbbb"; "cccc"; "dddd"; "eeee"; "ffff"]%string in
  rows_ok vs = true /\ budget_ok vs 24 (0, 7, 7, 14) = true
  /\ (exists r cs, join_sink vs 24 (0, 7, 7, 14) [0] = (Ok (r, 4), cs))
  /\ partition_ok vs 24 (0, 7, 7, 14) = true /\ pages_fit vs 24 (0, 7, 7, 14) = true
  (* ... and through Page.Render: size 32, template "T\n{{.foo}}", one menu item; the pre-render is
     8 bytes, budget_ok holds with 24 bytes left, pages 0..3 render and pages 4, 5 are errors *)
  /\ fst (page_render_inner wit_budget_tpl (fun k => Ok k)
            (page_set_sizer wit_pages_page (Some (sizer_add_cursor (new_sizer 32) 0))) (s2b "node")
            (blank (s2b "foo") (p_map wit_pages_page)) 0) = Ok (s2b "T" ++ [nl; nl] ++ s2b "1:one")
  /\ map (fun i => is_ok (fst (page_render wit_pages_cache wit_budget_tpl (fun k => Ok k) wit_pages_page (s2b "node") i)))
         [0; 1; 2; 3; 4; 5] = [true; true; true; true; false; false].
Proof. vm_compute. repeat split; eauto. Qed.

Print Assumptions C02_pages_partition_partial.
Print Assumptions C02_pages_partition_refuted_emptyrow.
Print Assumptions C02_pages_partition_refuted_nul.
Print Assumptions C02_static_parts_repeat.
Print Assumptions C02_browse_entries.
Print Assumptions C02_past_end_is_error.
Print Assumptions C02_render_never_panics.
Print Assumptions C02_offered_page_renders_partial.
Print Assumptions C02_offered_page_renders_page_partial.
Print Assumptions C02_offered_page_renders_msink_partial.
Print Assumptions C02_offered_page_renders_refuted_budget.
Print Assumptions C02_offered_page_renders_refuted_budget_page.
