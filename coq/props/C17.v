(* C17 — Rejected input has no effect on the session.

   Full statement (properties.jsonl): input that the engine refuses — non-empty and failing the input
   pattern, or longer than the input limit — produces an error for that request only: position, flags,
   cached symbols and pending bytecode are unchanged, no code symbol of the application is executed, and
   the next acceptable input is handled exactly as if the refused one had never been sent; in both
   long-lived and persisted operation, for a refused input at ANY position of ANY history.  Asking for
   output before anything was executed is refused without side effects.

   The model violates the full statement in one class, and shows two wrinkles:

   * K-C17-first (guard `c_first c = None`): an entry function configured with WithFirst runs inside init,
     BEFORE input validation, and receives the refused bytes (C17_refuted_first).
   * The stored session after a refused request equals the stored session before only up to what the next
     engine's init does anyway (`norm_snap`: an empty pending code becomes "MOVE <root>", after unwinding
     a stale position).  Requests do not distinguish a stored session from its normal form
     (C17_request_norm_invariant), so this is not observable.
   * Long-lived engine only: if the refused input is the FIRST request of the session, init has completed
     once it was refused, and a later input that is both over-long and malformed is answered with
     "continue" instead of "stop" (both with an error, nothing else differs; C17_refuted_long_first_cont;
     same root cause as K-C07-longbad).  Hence the guard `forallb input_ok_b h2` in
     C17_as_if_never_sent_long_first_partial; no such guard is needed at later positions.

   Hypotheses of the long-lived theorems: the engine is initialised and `settled` (its last Flush rendered
   what there was to render and completed a pending session end: `e_execd` may still be true — Flush does
   not clear it — then DIRTY is clear and the engine is not exiting).  Every engine that came out of a
   request whose Flush returned without panic and without taking the BrowseError fallback is settled;
   `delivered` additionally asks for an empty exit value. *)
From Vise Require Import Bytes Errors Consts EngConsts Codec CacheModel StateModel NavModel RenderModel VmModel EngineModel
  EngineProofs BisimProofs.
Local Open Scope N_scope.

(* ---- long-lived engine, one request ------------------------------------------------------------------------- *)
(* the request fails; `cont` is true for a pattern failure and false for an over-long input that matches the
   pattern; the machine (state incl. pending code, cache, page, world counters, ghost log) is EXACTLY what it
   was, so no application symbol ran; the following Flush is refused without effect *)
Theorem C17_refused_long : forall fuel rs c e input,
  refused input -> e_initd e = true -> delivered e ->
  eng_exec fuel rs c e input = (mkEng (e_v e) true [] false false, negb (valid_input_b input), SErr EGen None)
  /\ eng_flush fuel rs c (mkEng (e_v e) true [] false false) = (mkEng (e_v e) true [] false false, [], FErr EFlushNoExec)
  /\ request_long fuel rs c e input
     = (mkEng (e_v e) true [] false false, mkResp (negb (valid_input_b input)) (SErr EGen None) [] (FErr EFlushNoExec)).
Proof. exact refused_long. Qed.

(* any settled engine: as above, or (exit value alone larger than the output size) the engine is stuck and
   stays exactly as it is *)
Theorem C17_refused_long_settled : forall fuel rs c e input,
  refused input -> e_initd e = true -> settled e ->
  request_long fuel rs c e input =
  if stuck c e then (e, mkResp false (SErr EGen None) [] (FErr EGen))
  else (cleared e, mkResp (negb (valid_input_b input)) (SErr EGen None) [] (FErr EFlushNoExec)).
Proof. exact refused_request_settled. Qed.

(* the next request is served EXACTLY as if the refused one had not been sent (response and engine) *)
Theorem C17_next_request_unaffected : forall fuel rs c e bad input,
  refused bad -> e_initd e = true -> settled e ->
  request_long fuel rs c (fst (request_long fuel rs c e bad)) input = request_long fuel rs c e input.
Proof. exact refused_then_next. Qed.

Theorem C17_flush_before_exec_refused : forall fuel rs c e,
  e_execd e = false -> eng_flush fuel rs c e = (e, [], FErr EFlushNoExec).
Proof. exact flush_before_exec. Qed.

(* ---- persisted operation, one request ------------------------------------------------------------------------ *)
Theorem C17_refused_persisted_partial : forall fuel rs c p input,
  refused input -> c_first c = None ->
  request_persisted fuel rs c p input =
  (mkPw (if INPUT_LIMIT <? len input then store0_of c (pw_store p) else Some (norm_snap c (sess c (pw_store p))))
        (pw_w p) (pw_log p) (pw_taint p),
   mkResp (if INPUT_LIMIT <? len input then false else true) (SErr EGen None) [] (FErr EFlushNoExec)).
Proof. exact refused_persisted. Qed.

Theorem C17_norm_snap_idempotent : forall c sn, s_input (fst sn) = None -> norm_snap c (norm_snap c sn) = norm_snap c sn.
Proof. exact norm_snap_idem. Qed.

(* requests treat a stored session and its normal form alike *)
Theorem C17_request_norm_invariant : forall fuel rs c p q input,
  c_first c = None -> pw_ok c p -> pw_ok c q -> pw_eqv c p q ->
  let '(p', r) := request_persisted fuel rs c p input in
  let '(q', r') := request_persisted fuel rs c q input in
  r = r' /\ pw_eqv c p' q' /\ pw_ok c p' /\ pw_ok c q'.
Proof. exact request_persisted_eqv. Qed.

(* ---- whole histories ------------------------------------------------------------------------------------------- *)
Theorem C17_as_if_never_sent_partial : forall fuel rs c h1 bad h2,
  c_first c = None -> refused_bool bad = true ->
  exists r1 rb r2,
    snd (serve_pers fuel rs c (mkPw None [] [] false) (h1 ++ [bad] ++ h2)) = r1 ++ [rb] ++ r2
    /\ snd (serve_pers fuel rs c (mkPw None [] [] false) (h1 ++ h2)) = r1 ++ r2
    /\ List.length r1 = List.length h1
    /\ r_out rb = [] /\ r_exec rb = SErr EGen None /\ r_flush rb = FErr EFlushNoExec
    /\ pw_eqv c (fst (serve_pers fuel rs c (mkPw None [] [] false) (h1 ++ [bad] ++ h2)))
                (fst (serve_pers fuel rs c (mkPw None [] [] false) (h1 ++ h2))).
Proof. exact as_if_never_sent_pers_b. Qed.

Theorem C17_as_if_never_sent_long : forall fuel rs c e h1 bad h2,
  refused_bool bad = true ->
  e_initd (fst (serve_long fuel rs c e h1)) = true -> settled_b (fst (serve_long fuel rs c e h1)) = true ->
  exists r1 rb r2,
    snd (serve_long fuel rs c e (h1 ++ [bad] ++ h2)) = r1 ++ [rb] ++ r2
    /\ snd (serve_long fuel rs c e (h1 ++ h2)) = r1 ++ r2
    /\ List.length r1 = List.length h1
    /\ r_out rb = [] /\ r_exec rb = SErr EGen None
    /\ (h2 <> [] -> fst (serve_long fuel rs c e (h1 ++ [bad] ++ h2)) = fst (serve_long fuel rs c e (h1 ++ h2))).
Proof. exact as_if_never_sent_long_b. Qed.

Theorem C17_as_if_never_sent_long_first_partial : forall fuel rs c w lg bad h2,
  c_first c = None -> refused bad -> forallb input_ok_b h2 = true ->
  snd (serve_long fuel rs c (fst (request_long fuel rs c (new_engine c None w lg) bad)) h2)
  = snd (serve_long fuel rs c (new_engine c None w lg) h2).
Proof. exact as_if_never_sent_long_first. Qed.

(* ---- refutations --------------------------------------------------------------------------------------------------- *)
Theorem C17_refuted_first :
  exists (a : app) (c : config) (h : list bytes) (bad : bytes),
    c_first c <> None /\ refused bad
    /\ got_input (pw_log (fst (serve_pers 1000 (app_rsrc a) c (mkPw None [] [] false) (h ++ [bad])))) bad = true
    /\ got_input (v_log (e_v (fst (request_long 1000 (app_rsrc a) c (new_engine c None [] []) bad)))) bad = true.
Proof. exact first_receives_refused. Qed.

Theorem C17_refuted_long_first_cont :
  exists (a : app) (c : config) (bad j : bytes),
    c_first c = None /\ refused bad /\ input_ok_b j = false
    /\ map r_cont (snd (serve_long 1000 (app_rsrc a) c (new_engine c None [] []) [bad; j])) = [true; true]
    /\ map r_cont (snd (serve_long 1000 (app_rsrc a) c (new_engine c None [] []) [j])) = [false].
Proof. exact refuted_long_first_cont. Qed.

(* ---- non-vacuity ----------------------------------------------------------------------------------------------------- *)
(* the engine after "", "1" (at node foo, page delivered) meets the hypotheses; both kinds of refused input exist *)
Example C17_ex_hypotheses :
  let e := fst (serve_long 1000 (app_rsrc w_app) w_cfg (new_engine w_cfg None [] []) [[]; [49]]) in
  e_initd e = true /\ e_execd e = true /\ delivered_b e = true /\ settled_b e = true
  /\ s_path (v_st (e_v e)) = [[114; 111; 111; 116]; [102; 111; 111]]
  /\ refused_bool w_bad = true /\ valid_input_b w_bad = false
  /\ refused_bool w_long = true /\ valid_input_b w_long = true.
Proof. vm_compute. repeat split. Qed.

(* the refused input in the middle of a history, both drivers: same answers to the rest *)
Example C17_ex_history :
  map r_out (snd (serve_long 1000 (app_rsrc w_app) w_cfg (new_engine w_cfg None [] []) [[]; [49]; w_bad; w_long; [48]; [49]]))
  = [[114; 111; 111; 116]; [102; 111; 111]; []; []; [114; 111; 111; 116]; [102; 111; 111]]
  /\ map r_out (snd (serve_long 1000 (app_rsrc w_app) w_cfg (new_engine w_cfg None [] []) [[]; [49]; [48]; [49]]))
  = [[114; 111; 111; 116]; [102; 111; 111]; [114; 111; 111; 116]; [102; 111; 111]]
  /\ map r_out (snd (serve_pers 1000 (app_rsrc w_app) w_cfg (mkPw None [] [] false) [[]; [49]; w_bad; w_long; [48]; [49]]))
  = [[114; 111; 111; 116]; [102; 111; 111]; []; []; [114; 111; 111; 116]; [102; 111; 111]]
  /\ pw_store (fst (serve_pers 1000 (app_rsrc w_app) w_cfg (mkPw None [] [] false) [[]; [49]; w_bad]))
     = pw_store (fst (serve_pers 1000 (app_rsrc w_app) w_cfg (mkPw None [] [] false) [[]; [49]])).
Proof. vm_compute. repeat split. Qed.

(* norm_snap is not the identity: a session that ended (empty pending code, no position) *)
Example C17_ex_norm :
  let p := fst (serve_pers 1000 (app_rsrc w_app) w_cfg (mkPw None [] [] false) [w_long]) in
  pw_store (fst (request_persisted 1000 (app_rsrc w_app) w_cfg p w_bad)) <> pw_store p
  /\ pw_store (fst (request_persisted 1000 (app_rsrc w_app) w_cfg p w_bad)) = Some (norm_snap w_cfg (sess w_cfg (pw_store p))).
Proof. split; [intros H; vm_compute in H; discriminate|vm_compute; reflexivity]. Qed.

Print Assumptions C17_refused_long.
Print Assumptions C17_refused_long_settled.
Print Assumptions C17_next_request_unaffected.
Print Assumptions C17_flush_before_exec_refused.
Print Assumptions C17_refused_persisted_partial.
Print Assumptions C17_norm_snap_idempotent.
Print Assumptions C17_request_norm_invariant.
Print Assumptions C17_as_if_never_sent_partial.
Print Assumptions C17_as_if_never_sent_long.
Print Assumptions C17_as_if_never_sent_long_first_partial.
Print Assumptions C17_refuted_first.
Print Assumptions C17_refuted_long_first_cont.
