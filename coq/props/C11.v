(* C11 — Sessions and data types never see each other's stored data. *)
From Vise Require Import Bytes Errors Consts DbKey DbModel DbProofs.
Local Open Scope N_scope.

(* FULL STATEMENT (false for the code as it is; refuted below):
     forall t s k t' s' k', skey t s None k = skey t' s' None k' -> (t, s, k) = (t', s', k')
   for the sessioned types, for ANY session ids and keys, and on the filesystem backend the same
   for the file paths.  It holds exactly under the guards below: wf_sid = non-empty and dot-free
   session ids (the strongest guard under which it is true: any dot or the empty id is refuted),
   and on fs additionally plain names (no '/', NUL, "." / "..", <= 255 bytes) and no legacy
   fallback name beginning with a type character. *)

(* the storage key determines (type, session, key) for the sessioned types STATE and USERDATA *)
Theorem C11_enc_injective : forall t s k t' s' k',
  sessioned t = true -> sessioned t' = true -> wf_sid s = true -> wf_sid s' = true ->
  skey t s None k = skey t' s' None k' -> (t, s, k) = (t', s', k').
Proof. exact enc_injective_lemma. Qed.

(* different data types never share a storage key (first byte), whatever session, language, key *)
Theorem C11_types_disjoint : forall t s l k t' s' l' k',
  t <> t' -> skey t s l k <> skey t' s' l' k'.
Proof. exact types_disjoint_lemma. Qed.

(* language-scoped types: (key, language) is recovered from the storage key, for keys that do not
   end in "_" + three bytes and three-byte language codes *)
Theorem C11_key_lang_injective : forall t k l k' l',
  lang_type t = true -> sessioned t = false -> lang_ok l -> lang_ok l' ->
  no_lang_suffix k = true -> no_lang_suffix k' = true ->
  skey t [] l k = skey t [] l' k' -> k = k' /\ l = l'.
Proof. exact key_lang_injective_lemma. Qed.

(* fs: the file path determines (type, session, key) when the names are plain directory entries
   (slash_free and the rest of name_plain) ... *)
Theorem C11_path_injective_partial : forall dir t s k t' s' k',
  documented_type t = true -> documented_type t' = true ->
  sessioned t = true -> sessioned t' = true -> wf_sid s = true -> wf_sid s' = true ->
  name_plain (fs_name (skey t s None k)) = true -> name_plain (fs_name (skey t' s' None k')) = true ->
  clean_join dir (fs_name (skey t s None k)) = clean_join dir (fs_name (skey t' s' None k')) ->
  (t, s, k) = (t', s', k').
Proof. exact path_injective_partial_lemma. Qed.
(* ... and a legacy fallback name that does not begin with a type character (no_legacy_clash)
   never names the file of any entry of a documented type *)
Theorem C11_legacy_never_hits_partial : forall dir alt t s l k,
  name_plain alt = true -> no_legacy_clash alt = true -> documented_type t = true ->
  name_plain (fs_name (skey t s l k)) = true ->
  clean_join dir alt <> clean_join dir (fs_name (skey t s l k)).
Proof. exact legacy_never_hits_lemma. Qed.

(* history level, mem and pg: over all interleavings, a Put under one (type, session, key) never
   changes what a later Get under a different triple returns (guards of hist_ok: dot-free session
   ids, three-byte language codes, keys without language suffix, dot-free keys under the empty session) *)
Theorem C11_put_never_changes_other_get : forall be dir h1 k v h2 k',
  is_kv be = true ->
  hist_ok spec_init (h1 ++ OPut k v :: h2 ++ [OGet k']) = true ->
  let b1 := sp_base (fst (spec_run spec_init h1)) in
  let b2 := sp_base (fst (spec_run spec_init (h1 ++ h2))) in
  ctx_triple b1 k <> ctx_triple b2 k' ->
  last (db_results be dir (h1 ++ OPut k v :: h2 ++ [OGet k'])) DOk
  = last (db_results be dir (h1 ++ h2 ++ [OGet k'])) DOk.
Proof. exact kv_noninterference_lemma. Qed.

(* listings.  FULL STATEMENT: every (key, value) a Dump returns was written under the current
   (type, session).  fs (text mode): holds under the guards of the listing theorem (dump_ok).
   pg (db/postgres/dump.go after the repair 55e3e80: every row is compared with the lower bound):
   holds under pg_list_ok = a documented type and a session id for the sessioned types.  What
   remains excluded and why: (1) a sessioned type WITHOUT session id lists every session whose
   stored key begins with the requested key (the empty-id finding K-C11-2, refuted above for Get);
   (2) prefix values that are not one of the six documented types: a type that is both sessioned and
   language-scoped could confuse a language suffix with a session prefix.  The dot-free session ids
   and three-byte language codes are part of hist_ok. *)
Theorem C11_pg_listing_isolated_partial : forall dir ops p l,
  hist_ok spec_init ops = true ->
  let st := fst (db_run BPg (db_init dir) ops) in
  let sp := fst (spec_run spec_init ops) in
  pg_list_ok sp = true ->
  snd (db_step BPg st (ODump p)) = DDump l ->
  forall k v, In (k, v) l -> exists a, same_space (sp_base sp) a = true /\ slookup a (sp_map sp) = Some v.
Proof. exact pg_listing_isolated_partial_lemma. Qed.

Theorem C11_fs_listing_isolated_partial : forall dir ops p l,
  dir_ok dir = true -> dir <> [] ->
  fs_hist_ok false spec_init ops = true -> forallb put_key_nonempty ops = true ->
  let st := fst (db_run (BFs false) (db_init dir) ops) in
  let sp := fst (spec_run spec_init ops) in
  dump_ok sp = true -> fs_dump false st p = DDump l ->
  forall k v, In (k, v) l -> exists a, same_space (sp_base sp) a = true /\ slookup a (sp_map sp) = Some v.
Proof. exact fs_listing_isolated_partial_lemma. Qed.

(* regression for the repaired K-C11-5: the listing of STATE under session "s" no longer runs on into
   the USERDATA rows of "s" *)
Example C11_pg_dump_cross_type_regression :
  hist_ok spec_init w_pg_dump = true /\ pg_list_ok (ref_state w_pg_dump) = true
  /\ snd (db_step BPg (fst (db_run BPg (db_init []) w_pg_dump)) (ODump [])) = DDump [(s2b "a", s2b "state-a")]
  /\ owned (ref_state w_pg_dump) (s2b "state-a") = true /\ owned (ref_state w_pg_dump) (s2b "user-u") = false.
Proof. exact pg_dump_cross_type_regression. Qed.

(* non-vacuity of the Postgres listing theorem: two sessions whose ids are prefixes of each other *)
Example C11_pg_listing_nonvacuous :
  let h := [OSetPrefix DATATYPE_USERDATA; OSetSession (s2b "2547"); OPut (s2b "k") (s2b "own");
            OPut (s2b "m") (s2b "own2"); OSetSession (s2b "25471"); OPut (s2b "k") (s2b "other");
            OSetSession (s2b "2547")] in
  hist_ok spec_init h = true /\ pg_list_ok (ref_state h) = true
  /\ snd (db_step BPg (fst (db_run BPg (db_init []) h)) (ODump []))
     = DDump [(s2b "k", s2b "own"); (s2b "m", s2b "own2")].
Proof. vm_compute. repeat split. Qed.

(* refutations of the unguarded statement (each also replayed on the real backends by the harness) *)
Theorem C11_refuted_dot_in_session :
  exists t s k s' k', wf_sid s = true /\ wf_sid s' = false /\ (s, k) <> (s', k')
    /\ skey t s None k = skey t s' None k'
    /\ nth 7 (db_results BMem wdir
               [OSetPrefix t; OSetSession s; OPut k (s2b "A"); OSetSession s'; OGet k'; OPut k' (s2b "B");
                OSetSession s; OGet k]) DOk = DVal (s2b "B").
Proof. exact enc_refuted_dot. Qed.
Theorem C11_refuted_empty_session :
  exists t s k s' k', wf_sid s = true /\ wf_sid s' = false /\ (s, k) <> (s', k')
    /\ skey t s None k = skey t s' None k'
    /\ nth 4 (db_results BPg wdir [OSetPrefix t; OSetSession s; OPut k (s2b "A"); OSetSession s'; OGet k']) DOk
       = DVal (s2b "A").
Proof. exact enc_refuted_empty_session. Qed.
Theorem C11_refuted_fs_traversal :
  exists t s k s' k', wf_sid s = true /\ wf_sid s' = true /\ (s, k) <> (s', k')
    /\ slash_free k' = false
    /\ clean_join wdir (fs_name (skey t s None k)) = clean_join wdir (fs_name (skey t s' None k'))
    /\ nth 4 (db_results (BFs false) wdir [OSetPrefix t; OSetSession s; OPut k (s2b "1234"); OSetSession s'; OGet k']) DOk
       = DVal (s2b "1234").
Proof. exact path_refuted_traversal. Qed.
Theorem C11_refuted_fs_legacy_cross_type :
  exists s s' k, wf_sid s = true /\ wf_sid s' = true /\ wf_key k = true
    /\ no_legacy_clash (fs_alt_name DATATYPE_STATE (skey DATATYPE_STATE s' None k)) = false
    /\ nth 5 (db_results (BFs false) wdir
               [OSetPrefix DATATYPE_USERDATA; OSetSession s; OPut k (s2b "userdata");
                OSetPrefix DATATYPE_STATE; OSetSession s'; OGet k]) DOk = DVal (s2b "userdata").
Proof. exact path_refuted_legacy_cross_type. Qed.

(* non-vacuity: the guards are met by ordinary session ids and keys, two sessions interleave their
   writes in one store, and each reads back its own value on every backend *)
Example C11_nonvacuous :
  let h := [OSetPrefix DATATYPE_USERDATA; OSetSession (s2b "alice"); OPut (s2b "pin") (s2b "1");
            OSetSession (s2b "bob"); OPut (s2b "pin") (s2b "2"); OSetPrefix DATATYPE_STATE; OPut (s2b "pin") (s2b "3");
            OSetSession (s2b "alice"); OSetPrefix DATATYPE_USERDATA; OGet (s2b "pin")] in
  wf_sid (s2b "alice") = true /\ wf_sid (s2b "bob") = true
  /\ hist_ok spec_init h = true /\ fs_hist_ok false spec_init h = true /\ fs_hist_ok true spec_init h = true
  /\ name_plain (fs_name (skey DATATYPE_USERDATA (s2b "alice") None (s2b "pin"))) = true
  /\ last (db_results BMem wdir h) DOk = DVal (s2b "1")
  /\ last (db_results (BFs false) wdir h) DOk = DVal (s2b "1")
  /\ last (db_results (BFs true) wdir h) DOk = DVal (s2b "1")
  /\ last (db_results BPg wdir h) DOk = DVal (s2b "1").
Proof. vm_compute. repeat split. Qed.

Print Assumptions C11_enc_injective.
Print Assumptions C11_types_disjoint.
Print Assumptions C11_key_lang_injective.
Print Assumptions C11_path_injective_partial.
Print Assumptions C11_legacy_never_hits_partial.
Print Assumptions C11_put_never_changes_other_get.
Print Assumptions C11_pg_listing_isolated_partial.
Print Assumptions C11_fs_listing_isolated_partial.
Print Assumptions C11_refuted_dot_in_session.
Print Assumptions C11_refuted_empty_session.
Print Assumptions C11_refuted_fs_traversal.
Print Assumptions C11_refuted_fs_legacy_cross_type.
