(* C14 — Bytecode encoding and decoding are exact inverses.
   Property theorems only; each is closed by a lemma from proofs/CodecProofs.v. *)
From Vise Require Import Bytes Errors Consts Codec CodecProofs.
Local Open Scope N_scope.

(* sizes and signal numbers over the whole 32-bit range: the assembler's integer encoder is
   inverted by the VM's integer decoder, which consumes exactly the encoder's bytes *)
Theorem C14_int_roundtrip : forall n rest,
  n < 2 ^ 32 -> exists e, write_size n = Ok e /\ int_split (e ++ rest) = Ok (n, rest).
Proof. exact int_roundtrip_lemma. Qed.

(* symbols and selectors of 1..255 bytes *)
Theorem C14_sym_roundtrip : forall s rest,
  1 <= len s -> len s <= 255 ->
  write_sym s = Ok (len s :: s) /\ sym_split (len s :: s ++ rest) = Ok (s, rest).
Proof. intros s rest H1 H2. split; [apply write_sym_ok; exact H2|apply sym_split_data; assumption]. Qed.

(* every instruction of the language, both match modes: decodes to itself and consumes exactly
   its own bytes *)
Theorem C14_instr_roundtrip : forall i rest,
  wf_instr i -> decode_one (encode i ++ rest) = Ok (i, rest).
Proof. exact instr_roundtrip_lemma. Qed.

(* every encodable instruction sequence decodes back to the same sequence ... *)
Theorem C14_prog_roundtrip : forall p,
  Forall wf_instr p -> p <> [] -> parse_all (encode_prog p) = Ok p.
Proof. exact prog_roundtrip_lemma. Qed.

(* ... and is listed by the disassembler as the same instructions *)
Theorem C14_disasm_lists_same : forall p,
  Forall wf_instr p -> p <> [] -> to_string (encode_prog p) = Ok (print_prog p).
Proof. exact disasm_lemma. Qed.

(* the assembler's writers and vm.NewLine produce the same bytes *)
Theorem C14_encoders_agree : forall i, wf_instr i -> encode_asm i = Ok (encode i).
Proof. exact encoders_agree_lemma. Qed.

(* the mnemonic tables used by assembler and disassembler are inverse to each other *)
Theorem C14_opcode_tables_inverse :
  forallb (fun '(s, n) => existsb (fun '(n', s') => (n =? n') && String.eqb s s') opcode_string) opcode_index = true
  /\ forallb (fun '(n, s) => existsb (fun '(s', n') => (n =? n') && String.eqb s s') opcode_index) opcode_string = true
  /\ forallb (fun '(_, n) => n <=? max_opcode) opcode_index = true.
Proof. exact opcode_tables_inverse. Qed.

(* non-vacuity: a non-trivial program meets the hypotheses (255-byte symbol, 2^32-1) *)
Example C14_nonvacuous :
  let p := [ILoad (rep 97 255) 4294967295; ICatch (s2b "x_1") 65536 true; IInCmp (s2b "foo") (s2b "*"); IHalt] in
  forallb wf_instrb p = true /\ parse_all (encode_prog p) = Ok p.
Proof. vm_compute. auto. Qed.

Print Assumptions C14_int_roundtrip.
Print Assumptions C14_sym_roundtrip.
Print Assumptions C14_instr_roundtrip.
Print Assumptions C14_prog_roundtrip.
Print Assumptions C14_disasm_lists_same.
Print Assumptions C14_encoders_agree.
Print Assumptions C14_opcode_tables_inverse.
