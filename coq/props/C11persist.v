(* C11 (persist.Persister level) — sessions never see each other's data through the persister.

   The model is persist/persist.go as repaired by a037abb ("a reused persister leaked the previous session into
   the next one").  Before the repair Load decoded the record INTO the objects the persister already pointed to
   (fxamacker/cbor reuses non-nil maps and decodes Cache.Cache element-wise into the maps left in its backing
   array) and Save's flush (Memory.Reset(); Memory.Pop()) left the Sizes entries of deeper frames, LastValue, the
   frame maps it had cut off and the invalid mark behind; both are gone, and the histories that leaked are the
   regression examples C11_ex_flush_leftovers_gone, C11_ex_decode_into_gone, C11_ex_marks_gone.

   Full statement one would want: for every sequence of WithContent / Save / Load on a Persister and every key,
   after Load(k) the persister holds exactly what the last Save(k) stored and nothing of any other key, and what
   is stored under k contains nothing of any other session.

   Proved, for every persister content, state, cache, key, store content and flush mode:
   * C11_persister_reuse_clean / C11_persister_roundtrip — a Load that FINDS a record gives exactly that record:
     exported fields, no input, no invalid mark — whatever the persister held before (no hypothesis on the
     leftovers any more);
   * C11_save_stores_only_its_key, C11_flush_leaves_empty — Save writes the current content under its own storage
     key only; after a flushing Save the persister holds a new state (same flag count) and a new cache (same
     capacity) and nothing else;
   * C11_fresh_request, C11_fresh_persisters_isolated — a new persister per request (the deployment of the engine
     harness and of C07's EngineModel.request_persisted): what is stored for a session after any sequence of
     requests is what is stored when its requests are served alone;
   * C11_reused_persister_as_fresh / _isolated — ONE persister kept across all requests, in any flush mode and
     whatever it holds at the start, leaves the same store — PROVIDED every request saves what its caller computed
     from the LOADED session only (`reused_request`).

   What remains false (K-C11-6 as it is now, C11_persister_reuse_refuted_nosave): a Load that finds NO record
   leaves the persister as it is.  If no Save took the previous session away (a request that ended without a
   saving Finish; or no flush mode), the persister still holds that session, GetState()/GetMemory() hand it to the
   next caller — the engine adopts it (preparePersist) — and it is saved under the other key. *)
From Vise Require Import Bytes Errors Consts CacheModel StateModel DbKey PersistModel PersistProofs.
Local Open Scope N_scope.

Theorem C11_persister_reuse_clean : forall p key r,
  alookup (rec_key (p_sess p) key) (p_store p) = Some r ->
  snd (p_load p key) = POk
  /\ p_state (fst (p_load p key)) = Some (mkPst (set_input_raw (fst r) None) false)
  /\ p_mem (fst (p_load p key)) = Some (mkPmem (snd r) [] false)
  /\ p_store (fst (p_load p key)) = p_store p.
Proof. exact load_exact. Qed.

Theorem C11_persister_roundtrip : forall p key s m q key',
  p_state p = Some s -> p_mem p = Some m -> ps_invalid s = false -> pm_invalid m = false ->
  alookup (rec_key (p_sess q) key') (p_store q) = alookup (rec_key (p_sess p) key) (p_store (fst (p_save p key))) ->
  snd (p_load q key') = POk
  /\ p_state (fst (p_load q key')) = Some (mkPst (set_input_raw (ps_st s) None) false)
  /\ p_mem (fst (p_load q key')) = Some (mkPmem (pm_ca m) [] false).
Proof. exact roundtrip. Qed.

Theorem C11_load_not_found_keeps_everything : forall p key,
  alookup (rec_key (p_sess p) key) (p_store p) = None -> p_load p key = (p, PNotFound).
Proof. exact load_not_found. Qed.

Theorem C11_save_stores_only_its_key : forall p key s m,
  p_state p = Some s -> p_mem p = Some m -> ps_invalid s = false -> pm_invalid m = false ->
  snd (p_save p key) = POk
  /\ alookup (rec_key (p_sess p) key) (p_store (fst (p_save p key))) = Some (ser (ps_st s, pm_ca m))
  /\ (forall sk, sk <> rec_key (p_sess p) key -> alookup sk (p_store (fst (p_save p key))) = alookup sk (p_store p)).
Proof. exact save_stores. Qed.

Theorem C11_flush_leaves_empty : forall p key s m,
  p_state p = Some s -> p_mem p = Some m -> ps_invalid s = false -> pm_invalid m = false -> p_flush p = true ->
  p_state (fst (p_save p key)) = Some (mkPst (clone_empty (ps_st s)) false)
  /\ p_mem (fst (p_save p key)) = Some (mkPmem (new_cache (c_size (pm_ca m))) [] false)
  /\ leftover_clean (fst (p_save p key)) = true.
Proof. exact flush_leaves_empty. Qed.

Theorem C11_fresh_request : forall st0 ca0 f flush key store,
  fresh_request st0 ca0 f flush key store =
  aset (rec_key [] key) (ser (f (option_map loaded_of (alookup (rec_key [] key) store)))) store.
Proof. exact fresh_request_spec. Qed.

Theorem C11_fresh_persisters_isolated : forall reqs store k,
  alookup (rec_key [] k) (serve_fresh store reqs)
  = alookup (rec_key [] k) (serve_fresh store (filter (fun q => bytes_eqb (fq_key q) k) reqs)).
Proof. exact serve_fresh_isolated. Qed.

Theorem C11_reused_persister_as_fresh : forall reqs p,
  p_sess p = [] -> p_store (serve_reused p reqs) = serve_fresh (p_store p) reqs.
Proof. exact serve_reused_as_fresh. Qed.

Theorem C11_reused_persister_isolated : forall reqs p k,
  p_sess p = [] ->
  alookup (rec_key [] k) (p_store (serve_reused p reqs))
  = alookup (rec_key [] k) (serve_fresh (p_store p) (filter (fun q => bytes_eqb (fq_key q) k) reqs)).
Proof. exact serve_reused_isolated. Qed.

(* ---- what remains of K-C11-6 (reproduced on the real Persister: corpus case 3 of the driver "persist") ---------- *)
Theorem C11_persister_reuse_refuted_nosave : forall flush : bool,
  snd (p_load (run_ops ((if flush then [PWithFlush] else @nil pop) ++ [PWithContent wA_st wA_mem; PSave k1; PLoad k1])) k3) = PNotFound
  /\ leftover_clean (run_ops ((if flush then [PWithFlush] else @nil pop) ++ [PWithContent wA_st wA_mem; PSave k1; PLoad k1; PLoad k3])) = false
  /\ alookup (rec_key [] k3) (p_store (run_ops (w_ops_nosave flush))) = Some (ser (ps_st wA_st, pm_ca wA_mem))
  /\ alookup (rec_key [] k3) (p_store (run_ops (w_ops_nosave flush))) = alookup (rec_key [] k1) (p_store (run_ops (w_ops_nosave flush))).
Proof. exact reuse_leak_nosave. Qed.

(* ---- regression: the histories that leaked before a037abb ------------------------------------------------------------ *)
Example C11_ex_flush_leftovers_gone :
  leftover_clean (run_ops [PWithFlush; PWithContent wA_st wA_mem; PSave k1]) = true
  /\ snd (p_load (run_ops [PWithFlush; PWithContent wA_st wA_mem; PSave k1]) k2) = PNotFound
  /\ alookup (rec_key [] k2) (p_store (run_ops w_ops1)) = Some (new_state 3, new_cache 0).
Proof. exact flush_leftovers_gone. Qed.

Example C11_ex_decode_into_gone :
  let p := run_ops w_ops2 in
  option_map ps_st (p_state p) = Some (ps_st wB_st) /\ option_map pm_ca (p_mem p) = Some (pm_ca wB_mem)
  /\ option_map (fun m => alookup [97; 97] (nth 1 (c_frames (pm_ca m)) [])) (p_mem p) = Some None
  /\ option_map (fun m => match cache_pop (pm_ca m) with Ok c => c_use c | _ => 1 end) (p_mem p) = Some 0.
Proof. exact decode_into_gone. Qed.

Example C11_ex_marks_gone :
  option_map (fun s => s_input (ps_st s)) (p_state (run_ops [PWithContent wB_st wB_mem; PSave k2; PWithContent wA_st wA_mem; PLoad k2])) = Some None
  /\ snd (p_step (run_ops [PWithContent wA_st wA_mem; PSave k1; PInvalidateMemory; PLoad k1]) (PSave k1)) = POk.
Proof. exact marks_gone. Qed.

(* non-vacuity of the reuse theorem: three requests for two sessions on one kept persister *)
Example C11_ex_reused :
  let bump := fun o : option (state * cache) =>
                match o with Some (st, ca) => (set_path_idx st (s_path st ++ [[120]]) 0, cache_push ca) | None => (ps_st wB_st, pm_ca wB_mem) end in
  let reqs := [mkFreq k1 (new_state 3) (new_cache 0) bump true; mkFreq k2 (new_state 3) (new_cache 0) bump true;
               mkFreq k1 (new_state 3) (new_cache 0) bump true] in
  option_map (fun r => List.length (s_path (fst r))) (alookup (rec_key [] k1) (p_store (serve_reused (with_flush (new_persister [])) reqs))) = Some 3%nat
  /\ option_map (fun r => List.length (s_path (fst r))) (alookup (rec_key [] k2) (p_store (serve_reused (with_flush (new_persister [])) reqs))) = Some 2%nat.
Proof. vm_compute. auto. Qed.

Print Assumptions C11_persister_reuse_clean.
Print Assumptions C11_persister_roundtrip.
Print Assumptions C11_load_not_found_keeps_everything.
Print Assumptions C11_save_stores_only_its_key.
Print Assumptions C11_flush_leaves_empty.
Print Assumptions C11_fresh_request.
Print Assumptions C11_fresh_persisters_isolated.
Print Assumptions C11_reused_persister_as_fresh.
Print Assumptions C11_reused_persister_isolated.
Print Assumptions C11_persister_reuse_refuted_nosave.
