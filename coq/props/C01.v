(* C01 (engine level) — Every rendered page fits the configured output size.

   Full statement: when an output size limit is configured (c_out c > 0), whatever the engine
   hands to the client — for every application, configuration, snapshot, input history, fuel —
   is at most that many bytes long; when the content cannot be made to fit, Flush fails with an
   error and writes NOTHING rather than an oversized or shortened page.

   What is proved here, on top of the page-level theorems of C01page.v:

   * the page invariant  PgInv c v  ("the main VM's page carries a sizer exactly when an output
     size is configured, and its size is the configured one") is established by new_engine for
     every configuration and snapshot and preserved by every VM handler, by run (induction on the
     fuel, any code, any resource), by Page.Render (which returns the page it mutated), by
     Vm.Render (including the BrowseError path that runs MOVE _catch and renders a second time),
     by runFirst (which runs on a private page WITHOUT sizer and restores the main page), init,
     Exec, Flush and both request drivers;
   * C01_flush_fits_mod32: under PgInv, for every engine, fuel, resource and WHATEVER the status
     Flush reports, uint32(len(out)) <= c_out — unconditionally, in the arithmetic the code uses
     (Sizer.Check and Flush compare uint32(len(s)));
   * C01_flush_fits (= the design's flush_fits, PARTIAL under the named decidable guard
     len out < 2^32): len out <= c_out.  The full-strength absolute bound is FALSE of the model
     (and of the code) for outputs of 4 GiB and more: C01_check_refuted_uint32wrap exhibits a
     string of 2^32+1 bytes that Sizer.Check accepts at size 30.  The witness cannot be a
     vm_compute run (the string has 2^32+1 elements); it is proved symbolically, for the check
     itself;
   * C01_every_response_fits(_mod32): by induction over histories, every response of the
     long-lived driver (from new_engine c None [] []) and of the persisted driver (from an empty
     store; a new engine per request re-establishes the invariant, whatever the store holds)
     fits.  Histories carry their own fuel per request.  Responses of requests that ran out of
     fuel or panicked in Exec have an empty output (C01_no_flush_after_fuel_or_panic);
   * C01_error_instead_of_truncation: Flush is all or nothing.  Its output is [] or the WHOLE
     rendered page followed by the exit value (C01_flush_all_or_nothing); a render error without
     exit value, and a page + exit value exceeding the size, both write nothing
     (C01_render_error_writes_nothing, C01_over_writes_nothing).  For every engine satisfying
     ExitInv (established by new_engine, preserved by Exec/Flush/request_long:
     C01_exit_invariant) an error from Flush comes with an EMPTY output, except in one
     situation: the engine was exiting, page ++ exit was written in full and the final reset
     failed — which happens exactly when the session has no position left (empty path, error
     class EGen).  That situation IS reachable in the model, for applications that store code
     under the empty symbol (C01_reset_failure_reachable); the output is still complete and
     within the size;
   * C01_exit_value_checked (regression guard for e29f6bb "Flush appended the exit value after
     the output size check"): with a non-empty exit value whatever is written is page ++ exit and
     page and exit value TOGETHER passed the check; C01_exit_value_unchecked_would_exceed shows the
     corpus case exit-overflow where page ++ exit is 53 bytes at size 30 and Flush answers an
     error with empty output instead.

   Not proved: that situation B needs code under the empty symbol (argued in the note). *)
From Coq Require Import Lia.
From Vise Require Import Bytes Errors Consts Codec CacheModel StateModel NavModel RenderModel VmModel EngineModel
  RenderProofs SizeProofs.
Local Open Scope N_scope.

(* ---- the invariant --------------------------------------------------------------------- *)
Theorem C01_page_invariant_meaning : forall c v,
  PgInv c v <->
  (0 < c_out c -> exists z, p_sizer (v_pg v) = Some z /\ z_out z = c_out c)
  /\ (c_out c = 0 -> p_sizer (v_pg v) = None).
Proof. exact PgInv_spec. Qed.

Theorem C01_page_invariant_established : forall c snap w lg, PgInv c (e_v (new_engine c snap w lg)).
Proof. exact new_engine_inv. Qed.

(* Page.Render, every instruction, Run, Vm.Render: the sizer's output size never changes *)
Theorem C01_page_render_keeps_size : forall ca gt gm pg sym idx,
  page_out (snd (page_render ca gt gm pg sym idx)) = page_out pg.
Proof. exact page_render_out. Qed.

Theorem C01_instruction_keeps_size : forall rs sep lang i b v,
  vout (fst (fst (exec_instr rs sep lang i b v))) = vout v.
Proof. exact exec_instr_out. Qed.

Theorem C01_run_keeps_size : forall fuel rs sep lang b v,
  vout (fst (fst (run fuel rs sep lang b v))) = vout v.
Proof. exact run_out. Qed.

Theorem C01_vm_render_keeps_size : forall fuel rs sep lang v,
  vout (fst (vm_render fuel rs sep lang v)) = vout v.
Proof. exact vm_render_out. Qed.

(* runFirst hands the main VM's page back untouched *)
Theorem C01_run_first_restores_page : forall fuel c lang e,
  v_pg (e_v (fst (fst (run_first fuel c lang e)))) = v_pg (e_v e).
Proof. exact run_first_pg. Qed.

Theorem C01_page_invariant_preserved : forall fuel rs c e input,
  PgInv c (e_v e) ->
  PgInv c (e_v (fst (fst (eng_init fuel rs c e input))))
  /\ PgInv c (e_v (fst (fst (eng_exec fuel rs c e input))))
  /\ PgInv c (e_v (fst (fst (eng_flush fuel rs c e))))
  /\ PgInv c (e_v (fst (request_long fuel rs c e input))).
Proof. exact page_invariant_preserved. Qed.

(* ---- Flush fits -------------------------------------------------------------------------- *)
Theorem C01_flush_fits_mod32 : forall fuel rs c e e' out f,
  PgInv c (e_v e) -> 0 < c_out c ->
  eng_flush fuel rs c e = (e', out, f) -> w32 (len out) <= c_out c.
Proof. exact eng_flush_fits32. Qed.

Theorem C01_flush_fits : forall fuel rs c e e' out f,
  PgInv c (e_v e) -> 0 < c_out c -> len out < 4294967296 ->
  eng_flush fuel rs c e = (e', out, f) -> len out <= c_out c.
Proof. exact eng_flush_fits. Qed.

(* the guard cannot be dropped: Sizer.Check accepts 2^32+1 bytes at size 30 *)
Theorem C01_check_refuted_uint32wrap :
  exists s : bytes, 30 < len s /\ snd (sizer_check (new_sizer 30) s) = true.
Proof. exact sizer_check_wraps. Qed.

(* ---- histories ---------------------------------------------------------------------------- *)
Theorem C01_every_response_fits_mod32 : forall rs c h r,
  0 < c_out c ->
  In r (long_responses rs c (new_engine c None [] []) h) \/ In r (pers_responses rs c (mkPw None [] [] false) h) ->
  w32 (len (r_out r)) <= c_out c.
Proof. exact every_response_fits32. Qed.

Theorem C01_every_response_fits : forall rs c h r,
  0 < c_out c -> len (r_out r) < 4294967296 ->
  In r (long_responses rs c (new_engine c None [] []) h) \/ In r (pers_responses rs c (mkPw None [] [] false) h) ->
  len (r_out r) <= c_out c.
Proof. exact every_response_fits. Qed.

(* from any engine satisfying the invariant, and from any store *)
Theorem C01_every_response_fits_from : forall rs c h r,
  0 < c_out c ->
  (forall e, PgInv c (e_v e) -> In r (long_responses rs c e h) -> w32 (len (r_out r)) <= c_out c)
  /\ (forall p, In r (pers_responses rs c p h) -> w32 (len (r_out r)) <= c_out c).
Proof. exact every_response_fits_from. Qed.

Theorem C01_no_flush_after_fuel_or_panic : forall fuel rs c e input,
  (r_exec (snd (request_long fuel rs c e input)) = SFuel
   \/ exists n, r_exec (snd (request_long fuel rs c e input)) = SPanic n) ->
  r_out (snd (request_long fuel rs c e input)) = [].
Proof. exact request_long_no_flush. Qed.

(* ---- error instead of truncation ---------------------------------------------------------- *)
(* for EVERY engine: the output is empty, or the whole page followed by the exit value *)
Theorem C01_flush_all_or_nothing : forall fuel rs c e e' out f,
  eng_flush fuel rs c e = (e', out, f) ->
  let vr := vm_render fuel rs (c_sep c) (s_lang (v_st (e_v e))) (e_v e) in
  (out = [] /\ (forall er, f = FErr er -> e_execd e = false \/ flush_over c (e_exit e) (snd vr) = true
                                          \/ (snd vr = RRErr er /\ e_exit e = [])))
  \/ (e_execd e = true /\ flush_over c (e_exit e) (snd vr) = false
      /\ out = flush_page (snd vr) ++ e_exit e
      /\ ((exists page, snd vr = RROk page) \/ (exists er, snd vr = RRErr er /\ e_exit e <> []))
      /\ f = (if e_exiting e then f_of_stat (snd (eng_reset_inner (fst vr)))
              else match snd vr with RRErr er => FErr er | _ => FOk end)).
Proof. exact eng_flush_cases. Qed.

Theorem C01_render_error_writes_nothing : forall fuel rs c e v er,
  e_execd e = true -> e_exit e = [] ->
  vm_render fuel rs (c_sep c) (s_lang (v_st (e_v e))) (e_v e) = (v, RRErr er) ->
  eng_flush fuel rs c e = (eset_v e v, [], FErr er).
Proof. exact eng_flush_render_error. Qed.

Theorem C01_over_writes_nothing : forall fuel rs c e,
  e_execd e = true ->
  (forall n, snd (vm_render fuel rs (c_sep c) (s_lang (v_st (e_v e))) (e_v e)) <> RRPanic n) ->
  snd (vm_render fuel rs (c_sep c) (s_lang (v_st (e_v e))) (e_v e)) <> RRFuel ->
  flush_over c (e_exit e) (snd (vm_render fuel rs (c_sep c) (s_lang (v_st (e_v e))) (e_v e))) = true ->
  snd (fst (eng_flush fuel rs c e)) = [] /\ snd (eng_flush fuel rs c e) = FErr EGen.
Proof. exact eng_flush_over_error. Qed.

(* the exit invariant holds in every engine driven through the API *)
Theorem C01_exit_invariant : forall fuel rs c e input,
  (forall snap w lg, ExitInv (new_engine c snap w lg))
  /\ (ExitInv e -> ExitInv (fst (fst (eng_exec fuel rs c e input)))
                   /\ ExitInv (fst (fst (eng_flush fuel rs c e)))
                   /\ ExitInv (fst (request_long fuel rs c e input))).
Proof. exact exit_invariant. Qed.

Theorem C01_reachable_engines : forall rs c e, long_reach rs c e -> PgInv c (e_v e) /\ ExitInv e.
Proof. exact long_reach_inv. Qed.

Theorem C01_error_instead_of_truncation : forall fuel rs c e e' out er,
  ExitInv e ->
  eng_flush fuel rs c e = (e', out, FErr er) ->
  let vr := vm_render fuel rs (c_sep c) (s_lang (v_st (e_v e))) (e_v e) in
  out = []
  \/ (e_exiting e = true /\ er = EGen /\ s_path (v_st (fst vr)) = []
      /\ flush_over c (e_exit e) (snd vr) = false /\ out = flush_page (snd vr) ++ e_exit e).
Proof. exact eng_flush_err_empty. Qed.

(* without the invariant there is one more situation (the render failed, an exit value exists,
   the engine is not exiting: the exit value alone is written) *)
Theorem C01_error_instead_of_truncation_any_engine : forall fuel rs c e e' out er,
  eng_flush fuel rs c e = (e', out, FErr er) ->
  let vr := vm_render fuel rs (c_sep c) (s_lang (v_st (e_v e))) (e_v e) in
  out = []
  \/ (e_exiting e = false /\ snd vr = RRErr er /\ e_exit e <> [] /\ out = e_exit e)
  \/ (e_exiting e = true /\ er = EGen /\ s_path (v_st (fst vr)) = []
      /\ flush_over c (e_exit e) (snd vr) = false /\ out = flush_page (snd vr) ++ e_exit e).
Proof. exact eng_flush_err_cases. Qed.

(* the final reset fails exactly on an empty path, and then changes neither state nor cache *)
Theorem C01_reset_fails_only_nowhere : forall v,
  snd (eng_reset_inner v) = SOk
  \/ (snd (eng_reset_inner v) = SErr EGen None /\ s_path (v_st v) = []
      /\ v_st (fst (eng_reset_inner v)) = v_st v /\ v_ca (fst (eng_reset_inner v)) = v_ca v).
Proof. exact eng_reset_inner_stat. Qed.

Theorem C01_error_instead_of_truncation_histories : forall rs c h r er,
  In r (long_responses rs c (new_engine c None [] []) h) \/ In r (pers_responses rs c (mkPw None [] [] false) h) ->
  r_flush r = FErr er -> r_out r = [] \/ er = EGen.
Proof. exact err_histories. Qed.

(* ---- the exit value ------------------------------------------------------------------------ *)
Theorem C01_exit_value_checked : forall fuel rs c e e' out f,
  0 < c_out c -> e_exit e <> [] -> out <> [] ->
  eng_flush fuel rs c e = (e', out, f) ->
  let vr := vm_render fuel rs (c_sep c) (s_lang (v_st (e_v e))) (e_v e) in
  out = flush_page (snd vr) ++ e_exit e
  /\ ((exists page, snd vr = RROk page) \/ (exists er, snd vr = RRErr er))
  /\ w32 (len (flush_page (snd vr)) + len (e_exit e)) <= c_out c.
Proof. exact eng_flush_exit_checked. Qed.

(* observation (not part of C01): a long-lived engine never drops an exit value that does not
   fit — init's re-Flush fails on every later request *)
Theorem C01_note_exit_overflow_sticks : forall fuel rs c e input,
  e_execd e = true -> e_exiting e = false -> getf (v_st (e_v e)) Consts.FLAG_DIRTY = false ->
  0 < c_out c -> 0 < len (e_exit e) -> c_out c < w32 (len (e_exit e)) ->
  exists cont, request_long fuel rs c e input = (e, mkResp cont (SErr EGen None) [] (FErr EGen)).
Proof. exact exit_overflow_sticks. Qed.

(* ---- non-vacuity ---------------------------------------------------------------------------- *)
(* menu-sink at size 30: five entries paginated over three pages with browse labels; every
   response fits, browsing past the last page answers an error with empty output; both drivers *)
Example C01_nonvacuous_menu_sink :
  let rs := app_rsrc wit_menu_sink in
  let long := long_responses rs wit_cfg30 (new_engine wit_cfg30 None [] []) wit_menu_sink_inputs in
  let pers := pers_responses rs wit_cfg30 (mkPw None [] [] false) wit_menu_sink_inputs in
  PgInv wit_cfg30 (e_v (new_engine wit_cfg30 None [] [])) /\ 0 < c_out wit_cfg30
  /\ resp_lens long = [29; 24; 17; 24; 17; 0; 0] /\ resp_lens pers = resp_lens long
  /\ all_fit wit_cfg30 long = true /\ all_fit wit_cfg30 pers = true
  /\ option_map r_out (nth_error long 0) = Some (s2b "root" ++ [nl] ++ s2b "1:aaa" ++ [nl] ++ s2b "2:bbb" ++ [nl] ++ s2b "3:ccc" ++ [nl] ++ s2b "11:nxt")
  /\ option_map r_out (nth_error long 1) = Some (s2b "root" ++ [nl] ++ s2b "4:ddd" ++ [nl] ++ s2b "11:nxt" ++ [nl] ++ s2b "22:prv")
  /\ resp_flush long = [FOk; FOk; FOk; FOk; FOk; FErr EGen; FErr EGen].
Proof. vm_compute. repeat split; reflexivity. Qed.

(* exit value: " see you" after the page "bye" is delivered as page ++ exit, 11 bytes *)
Example C01_nonvacuous_exit_value :
  let e1 := wit_exit_engine (s2b " see you") in
  e_exit e1 = s2b " see you" /\ e_exiting e1 = true /\ ExitInv e1 /\ PgInv wit_cfg30 (e_v e1)
  /\ snd (fst (eng_flush 3000 (app_rsrc (wit_exit_app (s2b " see you"))) wit_cfg30 e1)) = s2b "bye see you"
  /\ snd (eng_flush 3000 (app_rsrc (wit_exit_app (s2b " see you"))) wit_cfg30 e1) = FOk.
Proof. vm_compute. repeat split; try reflexivity. right. left. reflexivity. Qed.

(* regression guard e29f6bb, refutation style: in corpus case exit-overflow the page is 3 bytes,
   the exit value 50; appending without the check would deliver 53 bytes at size 30; Flush
   answers an error and writes nothing.  The long-lived engine then refuses the later requests. *)
Example C01_exit_value_unchecked_would_exceed :
  let rs := app_rsrc (wit_exit_app (rep 98 50)) in
  let e1 := wit_exit_engine (rep 98 50) in
  let page := flush_page (snd (vm_render 3000 rs (c_sep wit_cfg30) (s_lang (v_st (e_v e1))) (e_v e1))) in
  page = s2b "bye" /\ len (e_exit e1) = 50 /\ len (page ++ e_exit e1) = 53 /\ c_out wit_cfg30 = 30
  /\ snd (fst (eng_flush 3000 rs wit_cfg30 e1)) = []
  /\ snd (eng_flush 3000 rs wit_cfg30 e1) = FErr EGen
  /\ map (fun r => (r_exec r, r_out r, r_flush r))
         (long_responses rs wit_cfg30 (new_engine wit_cfg30 None [] []) wit_exit_inputs)
     = [(SOk, s2b "root", FOk); (SOk, [], FErr EGen);
        (SErr EGen None, [], FErr EGen); (SErr EGen None, [], FErr EGen)].
Proof. vm_compute. repeat split; reflexivity. Qed.

(* situation B is reachable in the model: code under the empty symbol; the exit value (3 bytes)
   is written in full, the final reset reports an error; same in both drivers *)
Example C01_reset_failure_reachable :
  let rs := app_rsrc wit_nowhere in
  let h := wit_hist [""; "1"]%string in
  map (fun r => (r_exec r, r_out r, r_flush r)) (long_responses rs wit_cfg30 (new_engine wit_cfg30 None [] []) h)
    = [(SOk, s2b "root", FOk); (SOk, s2b "bye", FErr EGen)]
  /\ map (fun r => (r_exec r, r_out r, r_flush r)) (pers_responses rs wit_cfg30 (mkPw None [] [] false) h)
    = [(SOk, s2b "root", FOk); (SOk, s2b "bye", FErr EGen)].
Proof. vm_compute. split; reflexivity. Qed.

Print Assumptions C01_page_invariant_meaning.
Print Assumptions C01_page_invariant_established.
Print Assumptions C01_page_render_keeps_size.
Print Assumptions C01_instruction_keeps_size.
Print Assumptions C01_run_keeps_size.
Print Assumptions C01_vm_render_keeps_size.
Print Assumptions C01_run_first_restores_page.
Print Assumptions C01_page_invariant_preserved.
Print Assumptions C01_flush_fits_mod32.
Print Assumptions C01_flush_fits.
Print Assumptions C01_check_refuted_uint32wrap.
Print Assumptions C01_every_response_fits_mod32.
Print Assumptions C01_every_response_fits.
Print Assumptions C01_every_response_fits_from.
Print Assumptions C01_no_flush_after_fuel_or_panic.
Print Assumptions C01_flush_all_or_nothing.
Print Assumptions C01_render_error_writes_nothing.
Print Assumptions C01_over_writes_nothing.
Print Assumptions C01_exit_invariant.
Print Assumptions C01_reachable_engines.
Print Assumptions C01_error_instead_of_truncation.
Print Assumptions C01_error_instead_of_truncation_any_engine.
Print Assumptions C01_reset_fails_only_nowhere.
Print Assumptions C01_error_instead_of_truncation_histories.
Print Assumptions C01_exit_value_checked.
Print Assumptions C01_note_exit_overflow_sticks.
Print Assumptions C01_nonvacuous_menu_sink.
Print Assumptions C01_nonvacuous_exit_value.
Print Assumptions C01_exit_value_unchecked_would_exceed.
Print Assumptions C01_reset_failure_reachable.
