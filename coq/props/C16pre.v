(* C16 (second part) — the assembler command with its flag preprocessor (`asm -f table.csv file`,
   dev/asm/main.go + asm/flag.go) emits exactly the instructions that were written, a flag name
   standing for the number its table gives.  Property theorems only; each is closed by a lemma
   from proofs/AsmPreProofs.v.

   resolve look src is the independent reading: the source with the flag argument of every
   `CATCH node flag mode` and `CROAK flag mode` line replaced by the number the table gives for
   it (numerals stay; None if a name is not defined).  spec_lookup rows reads the table
   (`flag,<name>,<number>[,description]`, the last definition of a name counts); valid_rows says
   every row has that form, the name a symbol, the number a numeral in FLAG_USERSTART..2^32-1.

   Full statement (refuted like C16 itself, through the same four classes — the preprocessor
   adds none: its own lexer hands every argument of a documented line on unchanged, see
   pp_run_fidelity; a table number such as 010 lands in K-C16-octal):

     valid_rows rows -> resolve (spec_lookup rows) src = Some src1 -> valid_src src1 ->
     cmd_pre rows src = (out, 0) -> parse_all out = Ok (expand src1) *)
From Vise Require Import Bytes Errors Consts Codec AsmModel AsmProofs AsmPreModel AsmPreProofs.
Local Open Scope N_scope.

(* the preprocessor on its own: a source that has the documented form once its names are replaced
   is either refused or handed to the assembler as exactly that source — for every table whose
   names are symbols, every source; no guard *)
Theorem C16_pp_run_fidelity : forall tbl src src1 src2,
  names_are_symbols tbl ->
  resolve (fun k => alookup k tbl) src = Some src1 -> valid_src src1 ->
  pp_run tbl src = Ok src2 -> src2 = src1.
Proof. exact pp_run_fidelity_lemma. Qed.

(* a name the table does not define: the preprocessor returns an error (no panic, no source) *)
Theorem C16_pp_unknown_name_refused : forall tbl src srcd,
  names_are_symbols tbl ->
  resolve (fun k => alookup k tbl) src = None ->
  resolve (with_default (fun k => alookup k tbl)) src = Some srcd -> valid_src srcd ->
  exists e, pp_run tbl src = Err e.
Proof. exact pp_unknown_refused_lemma. Qed.

(* the command, composed with C16_asm_fidelity_partial: exit status 0 means standard output
   decodes to the instructions of the name-substituted source *)
Theorem C16_cmd_pre_fidelity_partial : forall rows src src1 out,
  valid_rows rows = true ->
  resolve (spec_lookup rows) src = Some src1 -> valid_src src1 ->
  lossless_selectors src1 = true -> short_syms src1 = true -> decimal_sizes src1 = true ->
  cmd_pre rows src = (out, 0) ->
  parse_all out = Ok (expand src1).
Proof. exact cmd_pre_fidelity_lemma. Qed.

(* ... and an undefined name means exit status 1 and nothing on standard output *)
Theorem C16_cmd_pre_unknown_name : forall rows src srcd,
  valid_rows rows = true ->
  resolve (spec_lookup rows) src = None ->
  resolve (with_default (spec_lookup rows)) src = Some srcd -> valid_src srcd ->
  cmd_pre rows src = ([], 1).
Proof. exact cmd_pre_unknown_refused_lemma. Qed.

(* a documented table is loaded, and the loaded map is the documented reading of the file *)
Theorem C16_table_loaded : forall rows,
  valid_rows rows = true ->
  exists tbl, load_table rows = Ok tbl /\ names_are_symbols tbl
    /\ forall k, alookup k tbl = spec_lookup rows k.
Proof. exact load_table_valid. Qed.

(* non-vacuity: the repository's example (examples/preprocessor/pp.csv, root.vis): the table is
   valid, the names resolve to 12, 10, 8, the command exits 0 and its output decodes to the five
   instructions with those numbers; an undefined name gives ([], 1); without -f the same source
   is refused by the assembler proper *)
Example C16pre_nonvacuous :
  valid_rows pp_csv = true
  /\ resolve (spec_lookup pp_csv) root_vis
     = Some [LS "CROAK" ["12"; "1"]; LS "CATCH" ["last"; "10"; "1"]; LS "CATCH" ["first"; "8"; "0"];
             LS "LOAD" ["flag_schmag"; "0"]; LS "MOVE" ["mid"]]%string
  /\ (exists out, cmd_pre pp_csv root_vis = (out, 0)
        /\ parse_all out = Ok [ICroak 12 true; ICatch (s2b "last") 10 true; ICatch (s2b "first") 8 false;
                                ILoad (s2b "flag_schmag") 0; IMove (s2b "mid")])
  /\ cmd_pre pp_csv [LS "CATCH" ["last"; "nope"; "1"]%string] = ([], 1)
  /\ cmd_plain root_vis = ([], 1).
Proof. exact pre_example. Qed.

Print Assumptions C16_pp_run_fidelity.
Print Assumptions C16_pp_unknown_name_refused.
Print Assumptions C16_cmd_pre_fidelity_partial.
Print Assumptions C16_cmd_pre_unknown_name.
Print Assumptions C16_table_loaded.
