(* C04 (engine rewinds) — what the engine's two rewinds do to the position, exactly.

   "Rewinding returns to the entry node with page index 0 and nothing else on the stack" has two
   places in engine/db.go that the move table does not cover (they are not applyTarget calls):
     * DefaultEngine.Reset(ctx, true), taken by Exec on the EMPTY input when ResetOnEmptyInput is
       configured (the model tests `len input =? 0`: there is no trimming - a blank input " " is
       refused by the input pattern instead, see the Example): early return only when there is NO
       entry node yet (Depth() == -1, s_path = []);
     * DefaultEngine.init, for a new engine object around a stored session WITHOUT pending code and
       not terminated (the previous request failed): the stale position is unwound when Depth() > -1,
       i.e. at ANY depth including the entry node itself, before MOVE <entry node> is queued.
   Both unwind EVERY level (eng_reset_inner: path [], index 0, one cache level under the session
   invariant nav_inv = "cache levels = stack depth + 1"), then MOVE <entry node> runs from the empty
   stack and is therefore never refused by applyTarget's "already at node" check.
   Guards: cache_ok ca (c_frames ca <> [], implied by nav_inv), nav_inv for the statements about cache
   levels, root_ok c (the entry node's name is a node symbol the codec round-trips), no entry
   function for Init.  All resources (applications), configurations, engines, fuel.
   Seeded changes C04-m5 (init guard `Depth() > 0`) and C04-m6 (Reset early return `Depth() < 1`)
   falsify C04_init_unwinds_stale_position resp. C04_reset_on_empty_at_entry_page at depth 0. *)
From Vise Require Import Bytes Errors Consts EngConsts Codec CacheModel StateModel NavModel NavSpec RenderModel
  VmModel EngineModel NavProofs VmProofs RoutingProofs RoutingProofs2.
Local Open Scope N_scope.

(* ---- Engine.reset, exactly -------------------------------------------------------------------- *)
Theorem C04_engine_reset_exact : forall v,
  s_path (v_st v) <> [] -> c_frames (v_ca v) <> [] ->
  eng_reset_inner v = (unwound_vm v, SOk).
Proof. exact eng_reset_inner_exact. Qed.

Theorem C04_unwound_state : forall st,
  s_path (unwound_state st) = [] /\ s_idx (unwound_state st) = 0 /\ s_code (unwound_state st) = s_code st
  /\ s_input (unwound_state st) = s_input st /\ s_lang (unwound_state st) = s_lang st
  /\ getf (unwound_state st) FLAG_TERMINATE = false /\ getf (unwound_state st) FLAG_DIRTY = false
  /\ (forall i, i <> FLAG_TERMINATE -> i <> FLAG_DIRTY -> getf (unwound_state st) i = getf st i).
Proof. exact unwound_state_facts. Qed.

Theorem C04_unwound_one_level : forall st ca,
  nav_inv st ca -> cache_levels (pops (List.length (s_path st)) ca) = 1.
Proof. exact unwound_levels. Qed.

(* Engine.Reset(ctx, true): code := MOVE <entry node>, then Engine.reset - at every depth >= 0 *)
Theorem C04_reset_force_exact : forall c e,
  s_path (v_st (e_v e)) <> [] -> c_frames (v_ca (e_v e)) <> [] ->
  eng_reset_force c e = (eset_v e (reset_vm c (e_v e)), SOk).
Proof. exact eng_reset_force_exact. Qed.

(* ---- 1. ResetOnEmptyInput --------------------------------------------------------------------- *)
Theorem C04_reset_on_empty_returns_to_entry : forall fuel rs c e e1 code e' cont s,
  c_reset_empty c = true -> root_ok c -> rs_code rs (cfg_root c) = Ok code ->
  eng_init (S fuel) rs c e [] = (e1, true, SOk) ->
  s_path (v_st (e_v e1)) <> [] -> nav_inv (v_st (e_v e1)) (v_ca (e_v e1)) ->
  eng_exec (S fuel) rs c e [] = (e', cont, s) ->
  (* (a) the rewind: code replaced by MOVE root, stack empty, index 0, one cache level *)
  (let vr := reset_vm c (e_v e1) in
   s_code (v_st vr) = encode (IMove (cfg_root c)) /\ pos_of (v_st vr) = ([], 0) /\ cache_levels (v_ca vr) = 1)
  (* (b) the first instruction executed is MOVE root - not an INCMP of the old page's pending code -
         and it arrives at [root], index 0, two cache levels *)
  /\ exists vM new,
       pos_of (v_st vM) = ([cfg_root c], 0) /\ cache_levels (v_ca vM) = 2
       /\ v_log vM = (if rs_observed rs then [EvCode (cfg_root c)] else []) ++
                    EvMove 0 (cfg_root c) (cfg_root c) :: EvInstr op_MOVE :: v_log (e_v e1)
       (* (c) from there on only the root's own code runs: the final position is the fold of the table
              over the moves it logs; [root] at index 0 if it logs none (the root's code halts) *)
       /\ v_log (e_v e') = new ++ v_log vM
       /\ nav_fold nav_code ([cfg_root c], 0) (log_moves new) = Some (pos_of (v_st (e_v e')))
       /\ (log_moves new = [] -> pos_of (v_st (e_v e')) = ([cfg_root c], 0)).
Proof. exact reset_on_empty_returns_to_entry_lemma. Qed.

(* Exec on the empty input IS exec on the rewound engine (the equation behind the theorem) *)
Theorem C04_reset_on_empty_exec : forall fuel rs c e e1,
  c_reset_empty c = true -> eng_init fuel rs c e [] = (e1, true, SOk) ->
  s_path (v_st (e_v e1)) <> [] -> c_frames (v_ca (e_v e1)) <> [] ->
  eng_exec fuel rs c e [] = eng_exec_inner fuel rs c (reset_engine c e1).
Proof. exact reset_on_empty_exec. Qed.

(* Init of a long-lived engine in its steady state changes nothing but the per-request marks *)
Theorem C04_init_steady : forall fuel rs c e input,
  e_initd e = true -> getf (v_st (e_v e)) FLAG_DIRTY = false -> e_exit e = [] -> e_exiting e = false ->
  eng_init fuel rs c e input = (mkEng (e_v e) true [] false false, true, SOk).
Proof. exact eng_init_steady. Qed.

(* regression corollary (seeded change C04-m6): AT the entry node, on page k > 0 *)
Theorem C04_reset_on_empty_at_entry_page : forall fuel rs c e code k e' cont s,
  c_reset_empty c = true -> root_ok c -> rs_code rs (cfg_root c) = Ok code ->
  e_initd e = true -> getf (v_st (e_v e)) FLAG_DIRTY = false -> e_exit e = [] -> e_exiting e = false ->
  s_path (v_st (e_v e)) = [cfg_root c] -> s_idx (v_st (e_v e)) = k -> 0 < k ->
  nav_inv (v_st (e_v e)) (v_ca (e_v e)) ->
  eng_exec (S fuel) rs c e [] = (e', cont, s) ->
  (* the rewind is NOT skipped at depth 0: position ([], 0), one cache level, code = MOVE root
     (whatever INCMP lines were pending) *)
  (let vr := reset_vm c (e_v e) in
   s_code (v_st vr) = encode (IMove (cfg_root c)) /\ pos_of (v_st vr) = ([], 0) /\ cache_levels (v_ca vr) = 1)
  /\ exists vM new,
       pos_of (v_st vM) = ([cfg_root c], 0) /\ cache_levels (v_ca vM) = 2
       /\ v_log vM = (if rs_observed rs then [EvCode (cfg_root c)] else []) ++
                    EvMove 0 (cfg_root c) (cfg_root c) :: EvInstr op_MOVE :: v_log (e_v e)
       /\ v_log (e_v e') = new ++ v_log vM
       /\ nav_fold nav_code ([cfg_root c], 0) (log_moves new) = Some (pos_of (v_st (e_v e')))
       (* root@k -> root@0 when the root's code halts without moving *)
       /\ (log_moves new = [] -> pos_of (v_st (e_v e')) = ([cfg_root c], 0)).
Proof. exact reset_on_empty_at_entry_page_lemma. Qed.

(* ---- 2. Init unwinds a stale position ---------------------------------------------------------- *)
Theorem C04_init_unwinds_stale_position : forall fuel rs c e input,
  c_first c = None -> e_initd e = false -> e_execd e = false ->
  stale (v_st (e_v e)) -> c_frames (v_ca (e_v e)) <> [] -> len input <= INPUT_LIMIT ->
  (* whatever the depth (>= 1 element on the stack, the entry node itself included) *)
  eng_init fuel rs c e input = (mkEng (init_unwound_vm c (e_v e) input) true [] false false, true, SOk)
  /\ (let v' := init_unwound_vm c (e_v e) input in
      s_code (v_st v') = encode (IMove (cfg_root c)) /\ pos_of (v_st v') = ([], 0)
      /\ v_ca v' = pops (List.length (s_path (v_st (e_v e)))) (v_ca (e_v e))
      /\ (nav_inv (v_st (e_v e)) (v_ca (e_v e)) -> cache_levels (v_ca v') = 1)
      /\ v_log v' = v_log (e_v e) /\ getf (v_st v') FLAG_TERMINATE = false
      (* the injected move is not refused: it arrives at [root], index 0 *)
      /\ (valid_sym_b (cfg_root c) = true ->
          apply_target (cfg_root c) (v_st v') (v_ca v') =
          (set_path_idx (v_st v') [cfg_root c] 0, cache_push (v_ca v'), cfg_root c, SOk))).
Proof. exact init_unwinds_stale_position_lemma. Qed.

(* ... whereas on the stale position itself, when that is the entry node, MOVE <entry node> is
   refused ("already at node"): nothing moves, the page index stays (what C04-m5 leaves behind) *)
Theorem C04_stale_at_entry_refuses_root : forall c st ca,
  valid_sym_b (cfg_root c) = true -> s_path st = [cfg_root c] ->
  apply_target (cfg_root c) st ca = (st, ca, cfg_root c, SErr EGen None).
Proof. exact stale_at_entry_refuses_root. Qed.

(* MOVE t from the empty stack: pushes t, index 0, one cache level more; its code is what runs next *)
Theorem C04_move_from_empty : forall fuel rs sep lang t v code,
  valid_sym_b t = true -> wf_sym t -> s_path (v_st v) = [] -> getf (v_st v) FLAG_TERMINATE = false ->
  rs_code rs t = Ok code ->
  let vI := vlog (snd (run_prelude lang v)) (EvInstr op_MOVE) in
  run (S fuel) rs sep lang (encode (IMove t)) v =
  run_post fuel rs sep (fst (run_prelude lang v)) (moved_vm rs sep t vI, code, SOk)
  /\ pos_of (v_st (moved_vm rs sep t vI)) = ([t], 0)
  /\ v_ca (moved_vm rs sep t vI) = cache_push (v_ca v)
  /\ v_log (moved_vm rs sep t vI) = (if rs_observed rs then [EvCode t] else []) ++ EvMove 0 t t :: EvInstr op_MOVE :: v_log v.
Proof. exact run_move_from_empty. Qed.

(* ---- 3. non-vacuity: corpus cases of go/cmd/vh/engine.go ---------------------------------------- *)
(* reset-on-empty-at-entry-page (ResetOnEmptyInput, OutputSize 30): "", 11, 11, "", 11, " ", x
   => root@0, root@1, root@2, root@0 (the rewind at the entry node), root@1, root@1 (" " is refused by
   the input pattern: no trimming), root/foo@0 *)
Example C04_reset_on_empty_corpus :
  fst (long_positions (app_rsrc roe_app) roe_cfg (new_engine roe_cfg None [] [])
                      [[]; s2b "11"; s2b "11"; []; s2b "11"; s2b " "; s2b "x"])
  = [([s2b "root"], 0); ([s2b "root"], 1); ([s2b "root"], 2); ([s2b "root"], 0); ([s2b "root"], 1);
     ([s2b "root"], 1); ([s2b "root"; s2b "foo"], 0)]
  /\ map (option_map fst) (fst (pers_positions (app_rsrc roe_app) roe_cfg (mkPw None [] [] false)
                      [[]; s2b "11"; s2b "11"; []; s2b "11"; s2b " "; s2b "x"]))
  = [Some ([s2b "root"], 0); Some ([s2b "root"], 1); Some ([s2b "root"], 2); Some ([s2b "root"], 0);
     Some ([s2b "root"], 1); Some ([s2b "root"], 1); Some ([s2b "root"; s2b "foo"], 0)].
Proof. vm_compute. split; reflexivity. Qed.

(* the hypotheses of C04_reset_on_empty_at_entry_page hold of the engine at root@2, and its conclusion
   is root@0 with the first new events MOVE / EvMove root *)
Example C04_reset_on_empty_at_entry_page_nonvacuous :
  let e := snd (long_positions (app_rsrc roe_app) roe_cfg (new_engine roe_cfg None [] []) [[]; s2b "11"; s2b "11"]) in
  c_reset_empty roe_cfg = true /\ valid_sym_b (cfg_root roe_cfg) = true
  /\ is_ok (rs_code (app_rsrc roe_app) (cfg_root roe_cfg)) = true
  /\ e_initd e = true /\ getf (v_st (e_v e)) FLAG_DIRTY = false /\ e_exit e = [] /\ e_exiting e = false
  /\ pos_of (v_st (e_v e)) = ([cfg_root roe_cfg], 2)
  /\ cache_levels (v_ca (e_v e)) = len (s_path (v_st (e_v e))) + 1
  (* pending: INCMP > 11; INCMP < 22; INCMP foo * - the wildcard would match the empty input *)
  /\ s_code (v_st (e_v e)) = incmp_block [(s2b ">", s2b "11"); (s2b "<", s2b "22"); (s2b "foo", s2b "*")]
  /\ (let '(e', cont, s) := eng_exec 300 (app_rsrc roe_app) roe_cfg e [] in
      s = SOk /\ cont = true /\ pos_of (v_st (e_v e')) = ([s2b "root"], 0)
      /\ cache_levels (v_ca (e_v e')) = 2
      /\ log_fired (v_log (e_v e')) = log_fired (v_log (e_v e))
      /\ log_moves (v_log (e_v e')) = log_moves (v_log (e_v e)) ++ [s2b "root"]).
Proof. vm_compute. repeat split. Qed.

(* restart-after-error, persisted operation: request "" fails at the entry node (LOAD aa 5 answers
   7 bytes): the record is root@0 WITHOUT pending code = a stale position of depth exactly 1; the next
   request's new engine unwinds it and MOVE root succeeds (the function now answers "ok"): the session is
   at root@0 with the INCMP pending, and the third request moves to foo *)
Example C04_restart_after_error_corpus :
  fst (pers_positions (app_rsrc rae_app) rae_cfg (mkPw None [] [] false) [[]; s2b "1"; s2b "1"])
  = [Some ([s2b "root"], 0, []);
     Some ([s2b "root"], 0, incmp_block [(s2b "foo", s2b "1")]);
     Some ([s2b "root"; s2b "foo"], 0, incmp_block [(s2b "_", s2b "0")])].
Proof. vm_compute. reflexivity. Qed.

(* the hypotheses of C04_init_unwinds_stale_position hold of the new engine around that record, and
   Init leaves path [], index 0, code MOVE root, one cache level *)
Example C04_init_unwinds_stale_position_nonvacuous :
  let p := snd (pers_positions (app_rsrc rae_app) rae_cfg (mkPw None [] [] false) [[]]) in
  let e := new_engine rae_cfg (pw_store p) (pw_w p) (pw_log p) in
  c_first rae_cfg = None /\ e_initd e = false /\ e_execd e = false
  /\ s_code (v_st (e_v e)) = [] /\ getf (v_st (e_v e)) FLAG_TERMINATE = false
  /\ s_path (v_st (e_v e)) = [cfg_root rae_cfg]
  /\ cache_levels (v_ca (e_v e)) = 2
  /\ (let '(e1, cont, s) := eng_init 300 (app_rsrc rae_app) rae_cfg e (s2b "1") in
      s = SOk /\ cont = true /\ pos_of (v_st (e_v e1)) = ([], 0) /\ cache_levels (v_ca (e_v e1)) = 1
      /\ s_code (v_st (e_v e1)) = encode (IMove (s2b "root")))
  (* without the unwinding the injected move would be refused *)
  /\ snd (apply_target (cfg_root rae_cfg) (v_st (e_v e)) (v_ca (e_v e))) = SErr EGen None.
Proof. vm_compute. repeat split. Qed.

Print Assumptions C04_engine_reset_exact.
Print Assumptions C04_unwound_state.
Print Assumptions C04_unwound_one_level.
Print Assumptions C04_reset_force_exact.
Print Assumptions C04_reset_on_empty_returns_to_entry.
Print Assumptions C04_reset_on_empty_exec.
Print Assumptions C04_init_steady.
Print Assumptions C04_reset_on_empty_at_entry_page.
Print Assumptions C04_init_unwinds_stale_position.
Print Assumptions C04_stale_at_entry_refuses_root.
Print Assumptions C04_move_from_empty.
