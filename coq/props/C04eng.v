(* C04 (engine level) — Navigation stack and page index follow the documented move table: after
   every run and every request the session's position (s_path, s_idx) is exactly what the table gives
   for the moves executed, whether the move came from MOVE, INCMP or CATCH.
   (Component level — one call of applyTarget against the table — is props/C04nav.v.)

   Full statement: for every `run` (ANY code bytes, ANY resource, machine whose cache has >= 1 frame,
   ANY fuel, ANY outcome — error, SPanic and SFuel included):
       pos_of (v_st v') = nav_fold nav_spec (pos_of (v_st v)) (moves executed)
   where the moves executed are the targets of the EvMove events the run appended to v_log, oldest
   first (log_moves).  EvMove is logged by the model exactly when applyTarget returned nil, before
   the code fetch.  It holds with nav_code (C04_position_follows_moves, unguarded); against the
   DOCUMENTED table nav_spec it is false in the one class K-C04-up-at-entry ("_" at the entry node
   succeeds and empties the stack): C04_position_follows_spec_partial (guard up_free, decidable)
   and C04_position_follows_spec_refuted_up_at_entry, side by side.

   Requests: besides the runs (Exec's run, Flush's catch run on BrowseError), the engine changes the
   position only by Engine.reset (eng_reset_inner: graceful end in Flush, ResetOnEmptyInput, the
   unwinding of a stale position when a new engine object takes over a session without pending
   code), which sets it to ([], 0) — `preset`; these resets are not moves of the table and are not
   logged.  pos_reach v v' = "there is a trace of PMove t / PReset steps leading from v's position to
   v''s whose PMove targets are exactly the logged moves".  C04_request_position(_persisted) give
   pos_reach for every request, and the plain fold (no reset) for a continuing request.
   Guard c_first c = None: with an entry function (WithFirst) "_first" is pushed with State.Down and
   popped with State.Up outside applyTarget — not logged, and both set the page index to 0
   (C04_first_outside_table). *)
From Vise Require Import Bytes Errors Consts EngConsts Codec CacheModel StateModel NavModel NavSpec RenderModel
  VmModel EngineModel NavProofs VmProofs RoutingProofs.
Local Open Scope N_scope.

(* ---- run level ---------------------------------------------------------------------------------- *)
Theorem C04_position_follows_moves : forall fuel rs sep lang b v v' b' s,
  c_frames (v_ca v) <> [] ->
  run fuel rs sep lang b v = (v', b', s) ->
  c_frames (v_ca v') <> [] /\
  exists new, v_log v' = new ++ v_log v
    /\ nav_fold nav_code (pos_of (v_st v)) (log_moves new) = Some (pos_of (v_st v')).
Proof. exact run_follows. Qed.

Theorem C04_position_follows_spec_partial : forall fuel rs sep lang b v v' b' s,
  c_frames (v_ca v) <> [] -> run fuel rs sep lang b v = (v', b', s) ->
  exists new, v_log v' = new ++ v_log v
    /\ (up_free (pos_of (v_st v)) (log_moves new) = true ->
        nav_fold nav_spec (pos_of (v_st v)) (log_moves new) = Some (pos_of (v_st v'))).
Proof. exact run_follows_spec_partial. Qed.

Theorem C04_position_follows_spec_refuted_up_at_entry :
  exists fuel rs sep lang b v v' b' s new,
    c_frames (v_ca v) <> [] /\ run fuel rs sep lang b v = (v', b', s)
    /\ v_log v' = new ++ v_log v /\ log_moves new = [t_up]
    /\ up_free (pos_of (v_st v)) (log_moves new) = false
    /\ nav_fold nav_spec (pos_of (v_st v)) (log_moves new) = None
    /\ pos_of (v_st v) = ([s2b "root"], 0) /\ pos_of (v_st v') = ([], 0).
Proof. exact run_follows_spec_refuted_up_at_entry. Qed.

(* one handler: leaves the position alone or performs exactly one logged move of the table
   (MOVE, INCMP, CATCH alike; CROAK, LOAD, RELOAD, MAP, HALT and the menu instructions do not move) *)
Theorem C04_handler_follows : forall rs sep lang i b v v' b' s,
  c_frames (v_ca v) <> [] -> exec_instr rs sep lang i b v = (v', b', s) -> pos_follows v v'.
Proof. exact exec_instr_follows. Qed.

(* ---- lateral moves ------------------------------------------------------------------------------ *)
Theorem C04_lateral_only_index : forall t st ca st' ca' sym r,
  t = t_next \/ t = t_prev -> apply_target t st ca = (st', ca', sym, r) ->
  (* only the page index can change: stack, cache and every other field stay *)
  st' = set_path_idx st (s_path st) (s_idx st') /\ ca' = ca
  (* a failing call changes nothing at all; "<" on the first page fails with IndexError *)
  /\ (r <> SOk -> st' = st)
  /\ (t = t_prev -> s_path st <> [] -> s_idx st = 0 -> st' = st /\ r = SErr EIndex (Some msg_index))
  /\ (r = SOk -> s_idx st' = if bytes_eqb t t_next then w16 (s_idx st + 1) else s_idx st - 1).
Proof. exact lateral_only_index_lemma. Qed.

Theorem C04_lateral_table : forall p t p',
  t = t_next \/ t = t_prev -> nav_code p t = Some p' -> fst p' = fst p.
Proof. exact nav_code_lateral. Qed.

(* ---- engine pieces ------------------------------------------------------------------------------ *)
(* Vm.Render: its catch run on BrowseError is again a run *)
Theorem C04_render_position : forall fuel rs sep lang v v' r,
  c_frames (v_ca v) <> [] -> vm_render fuel rs sep lang v = (v', r) -> pos_follows v v'.
Proof. exact vm_render_follows. Qed.

(* Engine.reset: the position becomes ([], 0) (nothing changes when the stack is already empty),
   nothing is logged *)
Theorem C04_reset_position : forall v v' s,
  eng_reset_inner v = (v', s) ->
  pos_of (v_st v') = preset (pos_of (v_st v)) /\ v_log v' = v_log v
  /\ (c_frames (v_ca v) <> [] -> c_frames (v_ca v') <> [])
  /\ (s_path (v_st v) <> [] -> s = SOk).
Proof. exact eng_reset_inner_spec. Qed.

(* Flush: render, and a reset only when the engine is exiting *)
Theorem C04_flush_position : forall fuel rs c e e' out f,
  c_frames (v_ca (e_v e)) <> [] -> eng_flush fuel rs c e = (e', out, f) ->
  pos_reach (e_v e) (e_v e') /\ e_initd e' = e_initd e /\ e_execd e' = e_execd e
  /\ (e_exiting e = false -> pos_follows (e_v e) (e_v e') /\ e_exiting e' = false).
Proof. exact eng_flush_reach. Qed.

(* Exec (init + reset-on-empty + input validation + run): no entry function, or already initialised *)
Theorem C04_exec_position : forall fuel rs c e input e' cont s,
  (e_initd e = true \/ c_first c = None) -> c_frames (v_ca (e_v e)) <> [] ->
  eng_exec fuel rs c e input = (e', cont, s) ->
  pos_reach (e_v e) (e_v e')
  /\ (cont = true -> e_initd e' = true /\ e_exiting e' = false)
  /\ (e_exiting e = false -> (e_initd e = true \/ (e_execd e = false /\ no_stale (v_st (e_v e)))) ->
      (c_reset_empty c && (len input =? 0)) = false -> pos_follows (e_v e) (e_v e')).
Proof. exact eng_exec_reach. Qed.

(* ---- requests ------------------------------------------------------------------------------------- *)
(* long-lived engine: Exec then Flush.  Second conjunct: a continuing request of an initialised
   engine (or of a new one without a stale position), not a reset-on-empty one, changes the position
   by the logged moves only: the plain fold *)
Theorem C04_request_position : forall fuel rs c e input e' resp,
  (e_initd e = true \/ c_first c = None) -> c_frames (v_ca (e_v e)) <> [] ->
  request_long fuel rs c e input = (e', resp) ->
  pos_reach (e_v e) (e_v e')
  /\ (e_exiting e = false -> (e_initd e = true \/ (e_execd e = false /\ no_stale (v_st (e_v e)))) ->
      (c_reset_empty c && (len input =? 0)) = false -> r_cont resp = true ->
      pos_follows (e_v e) (e_v e')).
Proof. exact request_long_reach. Qed.

(* persisted operation: the stored record before and after the request *)
Theorem C04_request_position_persisted : forall fuel rs c p input p' resp,
  c_first c = None -> c_frames (snd (start_snap c p)) <> [] ->
  request_persisted fuel rs c p input = (p', resp) ->
  exists st' ca', pw_store p' = Some (st', ca') /\ c_frames ca' <> []
  /\ ((* the record was not rewritten (panic, out of fuel, engine not initialised) *)
      (pos_of st' = pos_of (fst (start_snap c p)) /\ ca' = snd (start_snap c p))
      \/ exists new tr, pw_log p' = new ++ pw_log p /\ trace_moves tr = log_moves new
           /\ pos_trace (pos_of (fst (start_snap c p))) tr = Some (pos_of st'))
  /\ (no_stale (fst (start_snap c p)) -> (c_reset_empty c && (len input =? 0)) = false ->
      r_cont resp = true -> fstat_fatal (r_flush resp) = false ->
      exists new, pw_log p' = new ++ pw_log p
        /\ nav_fold nav_code (pos_of (fst (start_snap c p))) (log_moves new) = Some (pos_of st')).
Proof. exact request_persisted_reach. Qed.

(* whole histories: ANY list of inputs on a long-lived engine, and from a new engine without a stored
   session (the trace then starts at the empty position) *)
Theorem C04_history_position : forall inputs fuel rs c e,
  c_first c = None -> c_frames (v_ca (e_v e)) <> [] ->
  pos_reach (e_v e) (e_v (long_history fuel rs c e inputs)).
Proof. exact long_history_reach. Qed.

Theorem C04_history_position_fresh : forall inputs fuel rs c w lg,
  c_first c = None ->
  let e := long_history fuel rs c (new_engine c None w lg) inputs in
  exists new tr, v_log (e_v e) = new ++ lg /\ trace_moves tr = log_moves new
    /\ pos_trace ([], 0) tr = Some (pos_of (v_st (e_v e))).
Proof. exact long_history_fresh. Qed.

(* persisted operation, whole histories: ANY application (resource), ANY configuration without entry
   function, ANY list of inputs served by request_persisted (a new engine object per request, the log
   and the store thread through pworld) from the empty world, no request ending in a panic or out of
   fuel (then Finish is not reached and the ghost log, a model artefact, runs ahead of the store):
   the stored position is reached from ([], 0) by a trace of table moves and engine resets
   (pstep = PMove target | PReset) that explains the log: its moves are exactly the logged EvMove
   targets, oldest first *)
Theorem C04_history_position_persisted : forall inputs fuel rs c p' resps,
  c_first c = None ->
  pers_history fuel rs c (mkPw None [] [] false) inputs = (p', resps) -> no_fatal resps = true ->
  (inputs <> [] -> exists st' ca', pw_store p' = Some (st', ca') /\ c_frames ca' <> []
     /\ exists tr, trace_moves tr = log_moves (pw_log p') /\ pos_trace ([], 0) tr = Some (pos_of st'))
  /\ (inputs = [] -> p' = mkPw None [] [] false).
Proof. exact pers_history_fresh_lemma. Qed.

(* one such request, from any stored record *)
Theorem C04_request_trace_persisted : forall fuel rs c p input p' resp,
  c_first c = None -> c_frames (snd (start_snap c p)) <> [] ->
  request_persisted fuel rs c p input = (p', resp) -> resp_fatal resp = false ->
  exists st' ca', pw_store p' = Some (st', ca') /\ c_frames ca' <> []
    /\ exists new tr, pw_log p' = new ++ pw_log p /\ trace_moves tr = log_moves new
         /\ pos_trace (pos_of (fst (start_snap c p))) tr = Some (pos_of st').
Proof. exact request_persisted_trace. Qed.

(* the entry function is outside the table: no move logged, page index reset to 0 *)
Theorem C04_first_outside_table :
  exists c e, c_first c <> None /\
    let '(e', _, _) := run_first 10 c None e in
    pos_of (v_st (e_v e)) = ([s2b "root"], 2) /\ pos_of (v_st (e_v e')) = ([s2b "root"], 0)
    /\ log_moves (v_log (e_v e')) = log_moves (v_log (e_v e)).
Proof. exact first_resets_index_example. Qed.

(* ---- non-vacuity ------------------------------------------------------------------------------------ *)
(* a run from root's HALT with the block INCMP bar 1 and input "1": one move is logged (bar, by INCMP)
   and the position is the table's; the cache hypothesis holds *)
Example C04_run_nonvacuous :
  let v := ex_vm 0 (s2b "1") in
  c_frames (v_ca v) <> [] /\
  let '(v', b, st) := run 20 (app_rsrc ex_app) [] None (incmp_block [(s2b "bar", s2b "1")]) v in
  st = SOk /\ pos_of (v_st v) = ([s2b "root"], 0) /\ pos_of (v_st v') = ([s2b "root"; s2b "bar"], 0)
  /\ log_moves (v_log v') = log_moves (v_log v) ++ [s2b "bar"]
  /\ nav_fold nav_spec (pos_of (v_st v)) [s2b "bar"] = Some (pos_of (v_st v')).
Proof. vm_compute. repeat split. discriminate. Qed.

(* requests on the corpus application dupsel, long-lived engine: "" (MOVE root), "5" (wildcard: baz),
   "0" (_), "1" (foo, then bar: K-C03-dupsel), "0" (_) — after each request the position is the
   fold of the table over ALL moves logged so far *)
Example C04_request_long_nonvacuous :
  let e0 := new_engine ex_cfg None [] [] in
  let check (ins : list bytes) (p : list bytes * N) :=
      let e := ex_long e0 ins in
      pos_of (v_st (e_v e)) = p /\ nav_fold nav_spec ([], 0) (log_moves (v_log (e_v e))) = Some p in
  c_first ex_cfg = None /\ c_frames (v_ca (e_v e0)) <> []
  /\ check [[]] ([s2b "root"], 0)
  /\ check [[]; s2b "5"] ([s2b "root"; s2b "baz"], 0)
  /\ check [[]; s2b "5"; s2b "0"] ([s2b "root"], 0)
  /\ check [[]; s2b "5"; s2b "0"; s2b "1"] ([s2b "root"; s2b "foo"; s2b "bar"], 0)
  /\ check [[]; s2b "5"; s2b "0"; s2b "1"; s2b "0"] ([s2b "root"; s2b "foo"], 0)
  /\ (let e := ex_long e0 [[]; s2b "5"] in e_initd e = true /\ e_exiting e = false)
  /\ log_moves (v_log (e_v (ex_long e0 [[]; s2b "5"; s2b "0"; s2b "1"; s2b "0"])))
     = [s2b "root"; s2b "baz"; t_up; s2b "foo"; s2b "bar"; t_up].
Proof. vm_compute. repeat split. discriminate. Qed.

(* the same history in persisted operation (a new engine object per request) *)
Example C04_request_persisted_nonvacuous :
  let p0 := mkPw None [] [] false in
  let check (ins : list bytes) (pos : list bytes * N) :=
      let p := ex_pers p0 ins in
      option_map (fun sn => pos_of (fst sn)) (pw_store p) = Some pos
      /\ nav_fold nav_spec ([], 0) (log_moves (pw_log p)) = Some pos in
  check [[]] ([s2b "root"], 0)
  /\ check [[]; s2b "5"] ([s2b "root"; s2b "baz"], 0)
  /\ check [[]; s2b "5"; s2b "0"] ([s2b "root"], 0)
  /\ check [[]; s2b "5"; s2b "0"; s2b "1"] ([s2b "root"; s2b "foo"; s2b "bar"], 0)
  /\ check [[]; s2b "5"; s2b "0"; s2b "1"; s2b "0"] ([s2b "root"; s2b "foo"], 0).
Proof. vm_compute. repeat split. Qed.

(* the persisted history theorem is not vacuous: the corpus history, no fatal response, final record *)
Example C04_history_persisted_nonvacuous :
  let '(p, resps) := pers_history 200 (app_rsrc ex_eng_app) ex_cfg (mkPw None [] [] false)
                                  [[]; s2b "5"; s2b "0"; s2b "1"; s2b "0"] in
  c_first ex_cfg = None /\ no_fatal resps = true
  /\ option_map (fun sn => pos_of (fst sn)) (pw_store p) = Some ([s2b "root"; s2b "foo"], 0)
  /\ log_moves (pw_log p) = [s2b "root"; s2b "baz"; t_up; s2b "foo"; s2b "bar"; t_up]
  /\ pos_trace ([], 0) (map PMove (log_moves (pw_log p))) = Some ([s2b "root"; s2b "foo"], 0).
Proof. vm_compute. repeat split. Qed.

Print Assumptions C04_position_follows_moves.
Print Assumptions C04_position_follows_spec_partial.
Print Assumptions C04_position_follows_spec_refuted_up_at_entry.
Print Assumptions C04_handler_follows.
Print Assumptions C04_lateral_only_index.
Print Assumptions C04_lateral_table.
Print Assumptions C04_render_position.
Print Assumptions C04_reset_position.
Print Assumptions C04_flush_position.
Print Assumptions C04_exec_position.
Print Assumptions C04_request_position.
Print Assumptions C04_request_position_persisted.
Print Assumptions C04_history_position.
Print Assumptions C04_history_position_fresh.
Print Assumptions C04_history_position_persisted.
Print Assumptions C04_request_trace_persisted.
Print Assumptions C04_first_outside_table.
