(* C06 — Signal flags steer control flow and the reserved ones are tamper-proof.

   Property (properties.jsonl): CATCH moves to its target exactly when the named flag's state
   equals the given mode and otherwise does nothing; CROAK, under the same test, abandons the
   pending bytecode so that the session terminates or, while input is being handled, goes to the
   catch node.  External code can set and reset only client flags (8 and up), TERMINATE and
   LANG - requests to change the other built-in flags are ignored - and while TERMINATE is set no
   instruction runs, no external function is called and no position changes until client code
   clears it.  Quantifier: all flag indices within the configured flag count, both match modes,
   all FlagSet/FlagReset lists returned by external functions (including reserved indices
   0..5), all histories.

   What is stated below (all over the executable model VmModel/EngineModel, for ALL resources,
   machine states, codes, fuel, inputs, histories; the run loop is fuelled and the statements
   are for `S fuel`, i.e. every fuel that lets the loop look at one instruction):

   1. C06_catch_iff_match        CATCH, flag in range (`flag_in_range`, the property's "within the
                                 configured flag count"; outside it the model panics like
                                 State.GetFlag: C06_out_of_range_panics): no match => machine and
                                 code unchanged; match => apply_target's result, the target's
                                 code REPLACES the pending code; and the instruction is a no-op
                                 IF AND ONLY IF the flag does not match.
   2. C06_croak_iff_match        CROAK at handler level; C06_croak_then_dead_check at `run` level:
                                 `run (S fuel)` on `encode (ICroak sig mode) ++ rest` from a
                                 matching state drops `rest`, and then runDeadCheck decides: READIN
                                 clear => TERMINATE set and the run returns; READIN set => the run
                                 continues with `MOVE _catch` and the invalid-input page error
                                 (error when already at _catch or nowhere).  The flag is tested on
                                 the state the loop's preamble leaves (pre_st: LANG, WAIT cleared,
                                 INMATCH cleared after a HALT, DIRTY set); for any other flag
                                 that is the state's own value (C06_preamble_keeps_other_flags).
   3. C06_external_cannot_touch_reserved (refresh), _load, _reload: for ALL flag lists (any N) a
                                 function returns, every flag i <= nonwriteable_flag_threshold
                                 keeps its value, except LOADFAIL which the VM sets when the
                                 function fails.  C06_run_reserved / C06_reserved_never_changes:
                                 across a whole `run`, among flags 0..5 only READIN, INMATCH, WAIT,
                                 DIRTY (the VM's own transitions) can change, LOADFAIL only if some
                                 function of the resource can fail, RESERVED never.
                                 C06_first_reserved: the same for the engine's entry function.
                                 C06_reserved_requests_ignored_run/_request: a run, and a whole
                                 persisted or long-lived request (entry function included), is
                                 IDENTICAL to that of the application whose functions do not ask
                                 for reserved flags at all (strip_fres) - "ignored" on every path
                                 by which a result can reach the state.
                                 C06_history_reserved_clear / C06_history_loadfail: over every
                                 history from the empty store RESERVED is never set in a stored
                                 session, LOADFAIL only if some function can fail (the monitor
                                 c06_reserved of EngineMon, now for all apps and histories).
   4. C06_external_can_set_client_terminate_lang: flags >= 6 in range requested by a successful
                                 function ARE applied, FlagReset first, then FlagSet.
   5. C06_terminate_blocks_run   TERMINATE set => `run` returns at once: machine unchanged (no
                                 instruction, no function call, no move, no log entry), code dropped.
      C06_blocked_request        persisted operation, NO entry function, stored session with
                                 TERMINATE set and DIRTY clear, input accepted (not refused_b), and
                                 not an empty input under ResetOnEmptyInput at a non-empty position
                                 (guard `reset_req`: that configuration restarts the session on
                                 empty input by design, clearing the flag): the request answers
                                 cont = false, status OK, empty output, flush OK; world and ghost
                                 log are unchanged (no function call, no code fetch, no move, no
                                 instruction); the stored session is what it was except that the
                                 pending code is dropped (s_code = []: the stored code, or the
                                 `MOVE <root>` injected for an empty one, is taken by exec and
                                 dropped when run returns with TERMINATE) and the input is nil.
      C06_blocked_until_cleared  hence, by induction, every later request of any list of such
                                 inputs.
      FULL STRENGTH (no hypothesis on DIRTY) IS FALSE - new finding K-C06-dirty,
      C06_blocked_refuted_dirty: when the request in which external code set TERMINATE fails
      afterwards in Exec (e.g. the LOAD that set it rejects an over-long value), Flush does not run
      and the session is saved with TERMINATE AND DIRTY; the next, blocked, request renders the
      current page (template/menu lookups, OUTPUT "foo") and clears DIRTY.  Replayed on the real
      engine (persisted flags 0x52 -> out "foo" -> 0x42).  What does hold without the DIRTY
      hypothesis: C06_blocked_request_weak (cont = false, OK, world unchanged, the only ghost
      events are renderings, stored session = old one with DIRTY cleared and code dropped) and
      C06_terminated_stays_blocked (every request after that first one is blocked strictly).
      LONG-LIVED engine (follow-up): C06_blocked_request_long / C06_blocked_until_cleared_long - an
      initialised engine whose last output was delivered, TERMINATE set, DIRTY clear, WITH OR WITHOUT an
      entry function (it ran when the engine was initialised): every request reports stop, empty
      output, logs nothing, changes nothing but the pending code (dropped) and the input; the first one
      returns OK, the later ones fail in exec ("no code to execute": a long-lived engine injects
      MOVE <root> only once) and Flush then reports ErrFlushNoExec.
   FALSE with an entry function (finding K-C20-first / K-C07-first class): C06_blocked_refuted_first
   - the entry function's VM returns at once, runFirst takes the STALE last cache value as exit
   text, clears TERMINATE in memory, and the blocked request outputs that value (and is not saved). *)
From Vise Require Import Bytes Errors Consts EngConsts Codec CacheModel StateModel NavModel NavSpec RenderModel
  VmModel EngineModel VmProofs FlagProofs FlagProofs2.
Local Open Scope N_scope.

(* ---- 1. CATCH ------------------------------------------------------------------------------- *)
Theorem C06_catch_iff_match : forall rs sym sig mode b v,
  flag_in_range (v_st v) sig = true ->
  (getf (v_st v) sig <> mode -> run_catch rs sym sig mode b v = (v, b, SOk))
  /\ (getf (v_st v) sig = mode ->
      let '(st', ca', nsym, s) := apply_target sym (v_st v) (v_ca v) in
      match s with
      | SOk => match rs_code rs nsym with
               | Ok code => run_catch rs sym sig mode b v = (caught rs sym nsym st' ca' v, code, SOk)
               | Err e => run_catch rs sym sig mode b v = (caught rs sym nsym st' ca' v, b, SErr e None)
               | Panic n => run_catch rs sym sig mode b v = (caught rs sym nsym st' ca' v, b, SPanic n)
               end
      | _ => run_catch rs sym sig mode b v = (vset_ca (vset_st v st') ca', b, s)
      end)
  /\ (run_catch rs sym sig mode b v = (v, b, SOk) <-> getf (v_st v) sig <> mode).
Proof. exact catch_iff_match. Qed.

Theorem C06_out_of_range_panics : forall rs sep sym sig mode b v,
  flag_in_range (v_st v) sig = false ->
  run_catch rs sym sig mode b v = (v, b, SPanic 20) /\ run_croak sep sig mode b v = (v, b, SPanic 20).
Proof. exact catch_croak_out_of_range. Qed.

(* ---- 2. CROAK ------------------------------------------------------------------------------- *)
Theorem C06_croak_iff_match : forall sep sig mode b v,
  flag_in_range (v_st v) sig = true ->
  (getf (v_st v) sig <> mode -> run_croak sep sig mode b v = (v, b, SOk))
  /\ (getf (v_st v) sig = mode -> run_croak sep sig mode b v = (croaked sep v, [], SOk)).
Proof. exact croak_iff_match. Qed.

Theorem C06_croak_then_dead_check : forall fuel rs sep lang sig mode rest v,
  wf_num sig -> getf (v_st v) FLAG_TERMINATE = false ->
  flag_in_range (v_st v) sig = true -> getf (pre_st (v_st v)) sig = mode ->
  let lang' := pre_lang lang (v_st v) in
  let v1 := croaked sep (vlog (pre_vm v) (EvInstr op_CROAK)) in
  run (S fuel) rs sep lang (encode (ICroak sig mode) ++ rest) v =
    if negb (getf (v_st v) FLAG_READIN)
    then (vset_st v1 (setf (v_st v1) FLAG_TERMINATE), [], SOk)
    else match where_sym (v_st v) with
         | [] => (v1, [], SErr EGen None)
         | _ => if bytes_eqb (where_sym (v_st v)) catch_sym then (v1, [], SErr EGen None)
                else run fuel rs sep lang' move_catch_code
                       (vset_pg v1 (page_with_error (v_pg v1) (Some (msg_invalid_input (s_input (v_st v))))))
         end.
Proof. exact croak_run_match. Qed.

Theorem C06_croak_no_match_run : forall fuel rs sep lang sig mode rest v,
  wf_num sig -> getf (v_st v) FLAG_TERMINATE = false ->
  flag_in_range (v_st v) sig = true -> getf (pre_st (v_st v)) sig <> mode ->
  run (S fuel) rs sep lang (encode (ICroak sig mode) ++ rest) v =
    after_check (run fuel rs sep (pre_lang lang (v_st v))) (vlog (pre_vm v) (EvInstr op_CROAK), rest, SOk).
Proof. exact croak_run_no_match. Qed.

Theorem C06_preamble_keeps_other_flags : forall st i,
  i <> FLAG_LANG -> i <> FLAG_WAIT -> i <> FLAG_INMATCH -> i <> FLAG_DIRTY -> getf (pre_st st) i = getf st i.
Proof. exact getf_pre_st_other. Qed.

(* ---- 3. reserved flags ---------------------------------------------------------------------- *)
Theorem C06_external_cannot_touch_reserved : forall rs lang key v v' content s,
  refresh rs lang key v = (v', content, s) ->
  forall i, i <= nonwriteable_flag_threshold ->
    getf (v_st v') i = getf (v_st v) i \/ (i = FLAG_LOADFAIL /\ exists m, s = SErr EExternal m).
Proof. exact refresh_reserved. Qed.

Theorem C06_load_reserved : forall rs lang sym sz b v v' b' s,
  run_load rs lang sym sz b v = (v', b', s) ->
  forall i, i <= nonwriteable_flag_threshold ->
    getf (v_st v') i = getf (v_st v) i \/ (i = FLAG_LOADFAIL /\ exists m, s = SErr EExternal m).
Proof. exact run_load_reserved. Qed.

Theorem C06_reload_reserved : forall rs lang sym b v v' b' s,
  run_reload rs lang sym b v = (v', b', s) ->
  forall i, i <= nonwriteable_flag_threshold ->
    getf (v_st v') i = getf (v_st v) i \/ (i = FLAG_LOADFAIL /\ exists m, s = SErr EExternal m).
Proof. exact run_reload_reserved. Qed.

Theorem C06_run_reserved : forall fuel rs sep lang b v v' b' s,
  run fuel rs sep lang b v = (v', b', s) ->
  forall f, f <= nonwriteable_flag_threshold ->
    getf (v_st v') f = getf (v_st v) f \/ f = FLAG_READIN \/ f = FLAG_INMATCH \/ f = FLAG_WAIT \/ f = FLAG_DIRTY
    \/ (f = FLAG_LOADFAIL /\ can_fail rs).
Proof. exact run_reserved_frame. Qed.

Theorem C06_reserved_never_changes : forall fuel rs sep lang b v v' b' s,
  run fuel rs sep lang b v = (v', b', s) -> getf (v_st v') FLAG_RESERVED = getf (v_st v) FLAG_RESERVED.
Proof. exact run_reserved_const. Qed.

Theorem C06_loadfail_needs_failure : forall fuel rs sep lang b v v' b' s,
  run fuel rs sep lang b v = (v', b', s) ->
  getf (v_st v') FLAG_LOADFAIL <> getf (v_st v) FLAG_LOADFAIL -> can_fail rs.
Proof. exact run_loadfail_needs_failure. Qed.

Theorem C06_first_reserved : forall fuel c lang e e' r s,
  run_first fuel c lang e = (e', r, s) ->
  forall f, f <= nonwriteable_flag_threshold ->
    getf (v_st (e_v e')) f = getf (v_st (e_v e)) f \/ f = FLAG_READIN \/ f = FLAG_INMATCH \/ f = FLAG_WAIT \/ f = FLAG_DIRTY
    \/ (f = FLAG_LOADFAIL /\ exists sc, c_first c = Some sc /\ existsb fr_fail sc = true).
Proof. exact run_first_reserved_frame. Qed.

Theorem C06_reserved_requests_ignored_run : forall rs rs', strip_rel rs rs' ->
  forall fuel sep lang b v, run fuel rs' sep lang b v = run fuel rs sep lang b v.
Proof. exact run_strip. Qed.

Theorem C06_reserved_requests_ignored_request : forall a fuel c p input,
  request_persisted fuel (app_rsrc (strip_app a)) (strip_cfg c) p input = request_persisted fuel (app_rsrc a) c p input.
Proof. exact request_persisted_strip_app. Qed.

Theorem C06_reserved_requests_ignored_request_long : forall a fuel c e input,
  request_long fuel (app_rsrc (strip_app a)) (strip_cfg c) e input = request_long fuel (app_rsrc a) c e input.
Proof. exact request_long_strip_app. Qed.

Theorem C06_history_reserved_clear : forall fuel a c inputs p' resps,
  requests fuel (app_rsrc a) c (mkPw None [] [] false) inputs = (p', resps) -> store_clear p' FLAG_RESERVED.
Proof. exact history_reserved_clear. Qed.

Theorem C06_history_loadfail : forall fuel a c inputs p' resps,
  any_fail_b a c = false ->
  requests fuel (app_rsrc a) c (mkPw None [] [] false) inputs = (p', resps) -> store_clear p' FLAG_LOADFAIL.
Proof. exact history_loadfail_needs_failure. Qed.

(* ---- 4. client flags, TERMINATE, LANG ARE applied -------------------------------------------- *)
Theorem C06_external_can_set_client_terminate_lang : forall rs lang key v fr,
  next_fres rs key v = Some fr -> fr_fail fr = false ->
  (forall f, In f (fr_reset fr ++ fr_set fr) -> is_writeable_flag f = true -> flag_in_range (v_st v) f = true) ->
  exists v' content,
    refresh rs lang key v = (v', content, SOk)
    /\ (forall i, i <= nonwriteable_flag_threshold -> getf (v_st v') i = getf (v_st v) i)
    /\ (forall i, is_writeable_flag i = true -> flag_in_range (v_st v) i = true ->
          getf (v_st v') i = if memN i (fr_set fr) then true
                             else if memN i (fr_reset fr) then false else getf (v_st v) i).
Proof. exact refresh_applies. Qed.

Theorem C06_writeable_out_of_range_panics : forall fl set st,
  (exists f, In f fl /\ is_writeable_flag f = true /\ flag_in_range st f = false) ->
  apply_flags set fl st = Panic (if set then 21 else 22).
Proof. exact apply_flags_out_of_range. Qed.

(* ---- 5. TERMINATE blocks ---------------------------------------------------------------------- *)
Theorem C06_terminate_blocks_run : forall fuel rs sep lang b v,
  getf (v_st v) FLAG_TERMINATE = true -> run (S fuel) rs sep lang b v = (v, [], SOk).
Proof. exact run_terminate_blocks. Qed.

Theorem C06_blocked_request : forall fuel rs c p input st ca,
  c_first c = None -> pw_store p = Some (st, ca) ->
  getf st FLAG_TERMINATE = true -> getf st FLAG_DIRTY = false ->
  accepted_b input = true -> (reset_req c input = false \/ s_path st = []) ->
  request_persisted (S fuel) rs c p input
  = (mkPw (Some (set_input_raw (set_code st []) None, ca)) (pw_w p) (pw_log p) (pw_taint p),
     mkResp false SOk [] FOk).
Proof. exact blocked_request. Qed.

Theorem C06_blocked_until_cleared : forall fuel rs c inputs p st ca,
  c_first c = None -> pw_store p = Some (st, ca) ->
  getf st FLAG_TERMINATE = true -> getf st FLAG_DIRTY = false ->
  Forall (fun i => accepted_b i = true /\ (reset_req c i = false \/ s_path st = [])) inputs ->
  inputs <> [] ->
  requests (S fuel) rs c p inputs
  = (mkPw (Some (set_input_raw (set_code st []) None, ca)) (pw_w p) (pw_log p) (pw_taint p),
     map (fun _ => mkResp false SOk [] FOk) inputs).
Proof. exact blocked_until_cleared. Qed.

Theorem C06_blocked_request_weak : forall fuel rs c p input st ca,
  c_first c = None -> pw_store p = Some (st, ca) -> getf st FLAG_TERMINATE = true ->
  accepted_b input = true -> (reset_req c input = false \/ s_path st = []) ->
  exists p' resp, request_persisted (S fuel) rs c p input = (p', resp)
    /\ r_cont resp = false /\ r_exec resp = SOk
    /\ pw_w p' = pw_w p
    /\ (exists l, pw_log p' = l ++ pw_log p /\ forallb is_render l = true)
    /\ ((exists n, r_flush resp = FPanic n /\ pw_store p' = pw_store p) \/
        (pw_store p' = Some (set_input_raw (set_code (resetf st FLAG_DIRTY) []) None, ca) /\ r_flush resp <> FFuel
         /\ forall n, r_flush resp <> FPanic n)).
Proof. exact blocked_request_weak. Qed.

Theorem C06_terminated_stays_blocked : forall fuel rs c p input st ca p' resp inputs,
  c_first c = None -> pw_store p = Some (st, ca) -> getf st FLAG_TERMINATE = true ->
  accepted_b input = true -> (reset_req c input = false \/ s_path st = []) ->
  request_persisted (S fuel) rs c p input = (p', resp) -> (forall n, r_flush resp <> FPanic n) ->
  Forall (fun i => accepted_b i = true /\ (reset_req c i = false \/ s_path st = [])) inputs -> inputs <> [] ->
  r_cont resp = false /\ r_exec resp = SOk /\ pw_w p' = pw_w p
  /\ requests (S fuel) rs c p' inputs
     = (mkPw (Some (set_input_raw (set_code (resetf st FLAG_DIRTY) []) None, ca)) (pw_w p') (pw_log p') (pw_taint p'),
        map (fun _ => mkResp false SOk [] FOk) inputs).
Proof. exact terminated_stays_blocked. Qed.

(* finding K-C06-dirty: TERMINATE and DIRTY both stored; the blocked request outputs the page *)
Theorem C06_blocked_refuted_dirty :
  exists rs c p input st ca,
    c_first c = None /\ pw_store p = Some (st, ca)
    /\ getf st FLAG_TERMINATE = true /\ getf st FLAG_DIRTY = true
    /\ accepted_b input = true /\ reset_req c input = false
    /\ p = fst (requests 100 rs c (mkPw None [] [] false) [[]; s2b "1"])
    /\ snd (request_persisted 100 rs c p input) = mkResp false SOk (s2b "foo") FOk
    /\ pw_log (fst (request_persisted 100 rs c p input)) = EvRender (s2b "foo") 0 None :: pw_log p
    /\ snd (request_persisted 100 rs c (fst (request_persisted 100 rs c p input)) input) = mkResp false SOk [] FOk.
Proof. exact blocked_refuted_dirty. Qed.

Theorem C06_blocked_request_long : forall fuel rs c e input,
  e_initd e = true -> delivered_l e ->
  getf (v_st (e_v e)) FLAG_TERMINATE = true -> getf (v_st (e_v e)) FLAG_DIRTY = false ->
  accepted_b input = true -> (reset_req c input = false \/ s_path (v_st (e_v e)) = []) ->
  request_long (S fuel) rs c e input =
    match s_code (v_st (e_v e)) with
    | [] => (blocked_engine e input false, mkResp false (SErr EGen None) [] (FErr EFlushNoExec))
    | _ => (blocked_engine e input true, mkResp false SOk [] FOk)
    end.
Proof. exact blocked_request_long. Qed.

Theorem C06_blocked_until_cleared_long : forall fuel rs c inputs e,
  e_initd e = true -> delivered_l e ->
  getf (v_st (e_v e)) FLAG_TERMINATE = true -> getf (v_st (e_v e)) FLAG_DIRTY = false ->
  Forall (fun i => accepted_b i = true /\ (reset_req c i = false \/ s_path (v_st (e_v e)) = [])) inputs ->
  let '(e', resps) := requests_long (S fuel) rs c e inputs in
  Forall (fun r => r_cont r = false /\ r_out r = [] /\ (r_exec r = SOk \/ r_exec r = SErr EGen None)) resps
  /\ v_log (e_v e') = v_log (e_v e) /\ v_w (e_v e') = v_w (e_v e)
  /\ s_path (v_st (e_v e')) = s_path (v_st (e_v e)) /\ v_ca (e_v e') = v_ca (e_v e)
  /\ getf (v_st (e_v e')) FLAG_TERMINATE = true.
Proof. exact blocked_until_cleared_long. Qed.

Example C06_blocked_long_nonvacuous :
  let e := fst (requests_long 100 rs_term cfg_term (new_engine cfg_term None [] []) [[]; s2b "1"]) in
  e_initd e = true /\ e_execd e = true /\ e_exiting e = false /\ e_exit e = []
  /\ getf (v_st (e_v e)) FLAG_TERMINATE = true /\ getf (v_st (e_v e)) FLAG_DIRTY = false
  /\ map (fun r => (r_cont r, r_out r)) (snd (requests_long 100 rs_term cfg_term e [s2b "0"; s2b "1"; []]))
     = [(false, []); (false, []); (false, [])].
Proof. vm_compute. repeat split; reflexivity. Qed.

Theorem C06_accepted_is_not_refused : forall i, accepted_b i = negb (EngineMon.refused_b i).
Proof. exact accepted_b_not_refused. Qed.

(* ---- witnesses ---------------------------------------------------------------------------------- *)
(* corpus "terminate-blocked" (FlagProofs.app_term): aa sets TERMINATE and client flag 9; p_term is the
   session after the requests "" and "1": at root/foo, TERMINATE and flag 9 set *)

(* the hypotheses of C06_blocked_request / C06_blocked_until_cleared are met by a reachable session *)
Example C06_blocked_nonvacuous :
  c_first cfg_term = None /\ pw_store p_term = Some (st_term, ca_term)
  /\ getf st_term FLAG_TERMINATE = true /\ getf st_term FLAG_DIRTY = false
  /\ getf st_term 9 = true /\ s_path st_term = [s2b "root"; s2b "foo"]
  /\ forallb (fun i => accepted_b i && negb (reset_req cfg_term i)) [s2b "0"; s2b "1"; []] = true
  /\ snd (requests 100 rs_term cfg_term p_term [s2b "0"; s2b "1"; []])
     = [mkResp false SOk [] FOk; mkResp false SOk [] FOk; mkResp false SOk [] FOk]
  /\ pw_log (fst (requests 100 rs_term cfg_term p_term [s2b "0"; s2b "1"; []])) = pw_log p_term.
Proof. vm_compute. repeat split; reflexivity. Qed.

(* the same session served by an engine WITH an entry function: the blocked request outputs the
   stale last value "t" *)
Theorem C06_blocked_refuted_first :
  exists rs c p input st ca,
    c_first c <> None /\ pw_store p = Some (st, ca)
    /\ getf st FLAG_TERMINATE = true /\ getf st FLAG_DIRTY = false
    /\ accepted_b input = true /\ reset_req c input = false
    /\ r_out (snd (request_persisted 100 rs c p input)) = s2b "t"
    /\ r_cont (snd (request_persisted 100 rs c p input)) = false
    /\ pw_store (fst (request_persisted 100 rs c p input)) = pw_store p.
Proof. exact blocked_refuted_first. Qed.

(* ResetOnEmptyInput: an empty input restarts the terminated session (by design; excluded by reset_req) *)
Example C06_reset_on_empty_restarts :
  reset_req cfg_term_reset [] = true
  /\ snd (request_persisted 100 rs_term cfg_term_reset p_term []) = mkResp true SOk (s2b "root") FOk.
Proof. vm_compute. split; reflexivity. Qed.

(* CATCH / CROAK on a concrete machine: client flag 8 set, at node root *)
Example C06_catch_nonvacuous :
  flag_in_range st_c 8 = true /\ flag_in_range st_c 9 = true /\ flag_in_range st_c 10 = false
  /\ (let '(v', b, s) := run_catch rs_term (s2b "foo") 8 true [1; 2] v_c in
      (s_path (v_st v'), b, s) = ([s2b "root"; s2b "foo"], snd (nd "foo" [ILoad (s2b "aa") 10; IHalt; IInCmp (s2b "_") (s2b "0")]), SOk))
  /\ run_catch rs_term (s2b "foo") 8 false [1; 2] v_c = (v_c, [1; 2], SOk)
  /\ run_catch rs_term (s2b "foo") 9 true [1; 2] v_c = (v_c, [1; 2], SOk)
  /\ (let '(v', b, s) := run_catch rs_term (s2b "foo") 9 false [1; 2] v_c in s_path (v_st v') = [s2b "root"; s2b "foo"]).
Proof. vm_compute. repeat split; reflexivity. Qed.

Example C06_croak_nonvacuous :
  (* not handling input: TERMINATE *)
  (let '(v', b, s) := run 10 rs_term [] None (encode (ICroak 8 true) ++ encode IHalt) v_c in
   (getf (v_st v') FLAG_TERMINATE, b, s, s_path (v_st v')) = (true, [], SOk, [s2b "root"]))
  (* handling input (READIN set): MOVE _catch, which halts *)
  /\ (let v_r := vset_st v_c (set_input_raw (setf st_c FLAG_READIN) (Some (s2b "x"))) in
      let '(v', b, s) := run 10 rs_term [] None (encode (ICroak 8 true) ++ encode IHalt) v_r in
      (getf (v_st v') FLAG_TERMINATE, s, s_path (v_st v'), p_err (v_pg v'))
      = (false, SOk, [s2b "root"; s2b "_catch"], Some (s2b "invalid input: 'x'")))
  (* no match: the next instruction (HALT) runs *)
  /\ (let '(v', b, s) := run 10 rs_term [] None (encode (ICroak 8 false) ++ encode IHalt) v_c in
      (getf (v_st v') FLAG_TERMINATE, getf (v_st v') FLAG_WAIT, s) = (false, true, SOk)).
Proof. vm_compute. repeat split; reflexivity. Qed.

(* a function asking for every reserved flag, a client flag and an out-of-range one *)
Example C06_external_nonvacuous :
  (let '(v', _, s) := refresh (rs_greedy [0; 1; 2; 3; 4; 5; 6; 7; 9] [8]) None (s2b "gg") v_c in
   (map (getf (v_st v')) [0; 1; 2; 3; 4; 5; 6; 7; 8; 9], s)
   = ([false; false; false; false; false; false; true; true; false; true], SOk))
  /\ (let '(_, _, s) := refresh (rs_greedy [10] []) None (s2b "gg") v_c in s) = SPanic 21
  /\ (let '(_, _, s) := refresh (rs_greedy [4294967296] []) None (s2b "gg") v_c in s) = SPanic 21
  /\ (let '(v', _, s) := refresh (rs_greedy [] [0; 1; 2; 3; 4; 5]) None (s2b "gg") (vset_st v_c (setf (setf st_c 0) 4)) in
      (getf (v_st v') 0, getf (v_st v') 4, s)) = (true, true, SOk).
Proof. vm_compute. repeat split; reflexivity. Qed.

Print Assumptions C06_catch_iff_match.
Print Assumptions C06_out_of_range_panics.
Print Assumptions C06_croak_iff_match.
Print Assumptions C06_croak_then_dead_check.
Print Assumptions C06_croak_no_match_run.
Print Assumptions C06_preamble_keeps_other_flags.
Print Assumptions C06_external_cannot_touch_reserved.
Print Assumptions C06_load_reserved.
Print Assumptions C06_reload_reserved.
Print Assumptions C06_run_reserved.
Print Assumptions C06_reserved_never_changes.
Print Assumptions C06_loadfail_needs_failure.
Print Assumptions C06_first_reserved.
Print Assumptions C06_reserved_requests_ignored_run.
Print Assumptions C06_reserved_requests_ignored_request.
Print Assumptions C06_reserved_requests_ignored_request_long.
Print Assumptions C06_history_reserved_clear.
Print Assumptions C06_history_loadfail.
Print Assumptions C06_external_can_set_client_terminate_lang.
Print Assumptions C06_writeable_out_of_range_panics.
Print Assumptions C06_terminate_blocks_run.
Print Assumptions C06_blocked_request.
Print Assumptions C06_blocked_until_cleared.
Print Assumptions C06_blocked_request_weak.
Print Assumptions C06_terminated_stays_blocked.
Print Assumptions C06_blocked_refuted_dirty.
Print Assumptions C06_blocked_request_long.
Print Assumptions C06_blocked_until_cleared_long.
Print Assumptions C06_blocked_long_nonvacuous.
Print Assumptions C06_accepted_is_not_refused.
Print Assumptions C06_blocked_refuted_first.
Print Assumptions C06_blocked_nonvacuous.
Print Assumptions C06_reset_on_empty_restarts.
Print Assumptions C06_catch_nonvacuous.
Print Assumptions C06_croak_nonvacuous.
Print Assumptions C06_external_nonvacuous.
