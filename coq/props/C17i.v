(* C17 (interim) — Rejected input has no effect on the session. *)
From Vise Require Import Bytes Errors Consts Codec CacheModel StateModel NavModel RenderModel VmModel EngineModel.
Local Open Scope N_scope.

(* asking for output before anything was executed is refused without side effects *)
Theorem C17_flush_before_exec_refused : forall fuel rs c e,
  e_execd e = false -> eng_flush fuel rs c e = (e, [], FErr EFlushNoExec).
Proof. intros fuel rs c e H. unfold eng_flush. rewrite H. reflexivity. Qed.

(* an over-long input is refused by SetInput whatever the state *)
Theorem C17_overlong_refused : forall s i, INPUT_LIMIT < len i -> set_input s (Some i) = Err EGen.
Proof. intros s i H. unfold set_input. apply N.ltb_lt in H. rewrite H. reflexivity. Qed.

Print Assumptions C17_flush_before_exec_refused.
Print Assumptions C17_overlong_refused.
