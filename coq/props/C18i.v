(* C18 (interim) — The selected language reaches every lookup and survives the session. *)
From Coq Require Import String.
From Vise Require Import Bytes Errors Consts EngConsts Codec CacheModel StateModel NavModel RenderModel VmModel EngineModel.
Local Open Scope N_scope.

(* an unknown, non-empty code leaves the language unchanged *)
Theorem C18_invalid_code_keeps_language : forall lk s c,
  c <> [] -> lk c = None -> s_lang (st_set_language lk s c) = s_lang s.
Proof. intros lk s c Hc Hl. unfold st_set_language. rewrite Hl. destruct c; [congruence|reflexivity]. Qed.

(* a lookup in a language falls back to the default entry when there is no translation *)
Theorem C18_fallback_to_default : forall tbl key l,
  alookup (key ++ us ++ l) tbl = None -> lookup_lang tbl key (Some l) = alookup key tbl.
Proof. intros tbl key l H. unfold lookup_lang. rewrite H. reflexivity. Qed.

(* the stored session carries the language, and a new engine starts from it *)
Theorem C18_language_survives_save : forall c s ca w lg,
  s_lang (v_st (e_v (new_engine c (Some (snap_of s ca)) w lg))) = s_lang s.
Proof. reflexivity. Qed.

Print Assumptions C18_invalid_code_keeps_language.
Print Assumptions C18_fallback_to_default.
Print Assumptions C18_language_survives_save.

(* the ISO 639 resolution the model uses is the table generated from the real library on every
   run; these obligations pin what the table must satisfy whatever the library returns:
   a resolved code is a three-letter code, and a three-letter ISO 639-3 code resolves to itself *)
Definition lang_table_wellformed : bool :=
  forallb (fun p => match snd p with
                    | Some r => Nat.eqb (String.length r) 3
                                && (if Nat.eqb (String.length (fst p)) 3 then String.eqb r (fst p) else true)
                    | None => true
                    end) lang_table.
Theorem C18_lang_table_wellformed : lang_table_wellformed = true.
Proof. vm_compute. reflexivity. Qed.
Theorem C18_lang_table_anchors :
  lang_lookup (s2b "no") = Some (s2b "nor") /\ lang_lookup (s2b "swh") = Some (s2b "swh")
  /\ lang_lookup (s2b "sw") = Some (s2b "swa") /\ lang_lookup (s2b "xx") = None /\ lang_lookup [] = None.
Proof. vm_compute. repeat split; reflexivity. Qed.
Print Assumptions C18_lang_table_wellformed.
Print Assumptions C18_lang_table_anchors.
