(* C18 (interim) — The selected language reaches every lookup and survives the session. *)
From Vise Require Import Bytes Errors Consts Codec CacheModel StateModel NavModel RenderModel VmModel EngineModel.
Local Open Scope N_scope.

(* an unknown, non-empty code leaves the language unchanged *)
Theorem C18_invalid_code_keeps_language : forall lk s c,
  c <> [] -> lk c = None -> s_lang (st_set_language lk s c) = s_lang s.
Proof. intros lk s c Hc Hl. unfold st_set_language. rewrite Hl. destruct c; [congruence|reflexivity]. Qed.

(* a lookup in a language falls back to the default entry when there is no translation *)
Theorem C18_fallback_to_default : forall tbl key l,
  alookup (key ++ us ++ l) tbl = None -> lookup_lang tbl key (Some l) = alookup key tbl.
Proof. intros tbl key l H. unfold lookup_lang. rewrite H. reflexivity. Qed.

(* the stored session carries the language, and a new engine starts from it *)
Theorem C18_language_survives_save : forall c s ca w lg,
  s_lang (v_st (e_v (new_engine c (Some (snap_of s ca)) w lg))) = s_lang s.
Proof. reflexivity. Qed.

Print Assumptions C18_invalid_code_keeps_language.
Print Assumptions C18_fallback_to_default.
Print Assumptions C18_language_survives_save.
