(* C05 (interim, handler level) — Loaded symbols live exactly as long as their stack level. *)
From Vise Require Import Bytes Errors Consts Codec CacheModel StateModel NavModel RenderModel VmModel VmProofs.
Local Open Scope N_scope.

Theorem C05_load_skips_visible_symbol : forall rs lang sym sz b v val,
  cache_get (v_ca v) sym = Ok val -> run_load rs lang sym sz b v = (v, b, SOk).
Proof. exact run_load_visible. Qed.

Theorem C05_over_limit_result_not_stored : forall rs lang sym sz b v v1 content e,
  cache_get (v_ca v) sym = Err e -> refresh rs lang sym v = (v1, content, SOk) ->
  0 < w16 sz -> w16 sz < len content ->
  run_load rs lang sym sz b v = (v1, b, SErr EGen None).
Proof. exact run_load_over_limit. Qed.

Print Assumptions C05_load_skips_visible_symbol.
Print Assumptions C05_over_limit_result_not_stored.
