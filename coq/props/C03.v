(* C03 — Client input is routed by the first matching INCMP, once.

   Full statement (DESIGN section 6): after a HALT, the client's input is compared with the following
   INCMP instructions in order; the first one whose selector equals the input (or is the wildcard)
   decides the move, and no other INCMP before the next HALT causes a second move.  If none matches,
   the session goes to the catch node with an invalid-input message showing that input, and a
   "previous" request on the first page counts as no match.

   Setting of every theorem below: ANY resource rs, separator, context language, fuel, machine v
   with `routing_start input v` (TERMINATE clear, the input is set, no match so far — in particular
   WAIT set, i.e. execution resumes after a HALT: the prelude of Run then clears INMATCH whatever
   HALT left; READIN may be anything: C03_stale_readin_irrelevant — and the 8 built-in flag bits
   exist), ANY block l of well-formed INCMP lines (target, selector) followed by ANY code r.
   Conclusions are equalities of `run` results, "or the run is out of fuel" (out_of_fuel).
   scan_nomatch / scan_skip / at_match / fire_vm / noprev_vm are the explicit machines
   (RoutingProofs.v): every line passed without firing contributes the prelude's flag changes and the
   ghost events EvInstr INCMP, EvInCmp d s false (block_log), nothing else.

   The "once" half is FALSE of the code as stated (finding K-C03-dupsel, pinned by
   vm/runner_test.go:TestRunReturn): a later INCMP whose selector literally equals the input fires
   again.  C03_at_most_one_move_partial holds under the decidable guard `distinct_after l2 input`
   (no later line of the block repeats the input; wildcards are harmless), and
   C03_at_most_one_move_refuted_dupsel is the witness, side by side. *)
From Vise Require Import Bytes Errors Consts EngConsts Codec CacheModel StateModel NavModel NavSpec RenderModel
  VmModel EngineModel CodecProofs NavProofs VmProofs RoutingProofs.
Local Open Scope N_scope.

(* ---- the run loop, unfolded once -------------------------------------------------------------- *)
Theorem C03_run_unfold : forall fuel rs sep lang i rest v,
  wf_instr i ->
  run (S fuel) rs sep lang (encode i ++ rest) v =
  if getf (v_st v) FLAG_TERMINATE then (v, [], SOk) else
  let h := exec_instr rs sep (fst (run_prelude lang v)) i rest
             (vlog (snd (run_prelude lang v)) (EvInstr (opcode_of i))) in
  if is_halt i then h else run_post fuel rs sep (fst (run_prelude lang v)) h.
Proof. exact run_unfold. Qed.

(* a resume after HALT is a routing start, whatever INMATCH and READIN are *)
Theorem C03_resume_is_start : forall input v,
  getf (v_st v) FLAG_TERMINATE = false -> s_input (v_st v) = Some input -> getf (v_st v) FLAG_WAIT = true ->
  flags_ok (v_st v) -> routing_start input v.
Proof. exact resume_is_start. Qed.

(* READIN as the last HALT left it does not matter to an INCMP once INMATCH is clear *)
Theorem C03_stale_readin_irrelevant : forall rs sep d s b v,
  getf (v_st v) FLAG_INMATCH = false ->
  run_incmp rs sep d s b v = run_incmp rs sep d s b (vset_st v (setf (v_st v) FLAG_READIN)).
Proof. exact run_incmp_readin_irrelevant. Qed.

(* ---- no match ----------------------------------------------------------------------------------- *)
Theorem C03_no_match_goes_to_catch : forall fuel rs sep lang input ds l v,
  routing_start input v -> wf_block (ds :: l) -> no_match input (ds :: l) = true ->
  let lv := scan_nomatch (lang, v) (ds :: l) in
  (* nothing moved; no line fired *)
  pos_of (v_st (snd lv)) = pos_of (v_st v) /\ v_ca (snd lv) = v_ca v
  /\ v_log (snd lv) = block_log (ds :: l) (v_log v)
  (* at a node other than _catch: MOVE _catch runs next, on a page carrying the invalid-input error *)
  /\ (where_sym (v_st v) <> [] -> where_sym (v_st v) <> catch_sym ->
      out_of_fuel (run fuel rs sep lang (incmp_block (ds :: l)) v) \/
      exists f, (f < fuel)%nat /\
        run fuel rs sep lang (incmp_block (ds :: l)) v =
        run f rs sep (fst lv) move_catch_code
            (vset_pg (snd lv) (page_with_error (v_pg (snd lv)) (Some (msg_invalid_input (Some input))))))
  (* at _catch itself (or nowhere): the run fails *)
  /\ (where_sym (v_st v) = [] \/ where_sym (v_st v) = catch_sym ->
      out_of_fuel (run fuel rs sep lang (incmp_block (ds :: l)) v) \/
      run fuel rs sep lang (incmp_block (ds :: l)) v = (snd lv, [], SErr EGen None)).
Proof. exact no_match_goes_to_catch_lemma. Qed.

(* code follows the block: it runs next, with READIN set and INMATCH clear *)
Theorem C03_no_match_continues : forall fuel rs sep lang input ds l r v,
  routing_start input v -> wf_block (ds :: l) -> no_match input (ds :: l) = true -> r <> [] ->
  let lv := scan_nomatch (lang, v) (ds :: l) in
  (out_of_fuel (run fuel rs sep lang (incmp_block (ds :: l) ++ r) v) \/
   exists f, (f < fuel)%nat /\ run fuel rs sep lang (incmp_block (ds :: l) ++ r) v = run f rs sep (fst lv) r (snd lv))
  /\ pos_of (v_st (snd lv)) = pos_of (v_st v) /\ v_ca (snd lv) = v_ca v
  /\ v_log (snd lv) = block_log (ds :: l) (v_log v)
  /\ getf (v_st (snd lv)) FLAG_READIN = true /\ getf (v_st (snd lv)) FLAG_INMATCH = false
  /\ getf (v_st (snd lv)) FLAG_WAIT = false.
Proof. exact no_match_continues_lemma. Qed.

(* ---- the first match decides ------------------------------------------------------------------- *)
Theorem C03_first_match_fires : forall fuel rs sep lang input l1 d s l2 r v st' ca' nsym code,
  routing_start input v -> wf_block l1 -> wf_sym d -> wf_sym s ->
  no_match input l1 = true -> sel_match input s = true ->
  let vI := snd (at_match lang v l1) in
  (* the move: applyTarget on the position the block was entered with, INMATCH set, READIN clear *)
  apply_target d (match_st (v_st vI)) (v_ca vI) = (st', ca', nsym, SOk) ->
  rs_code rs nsym = Ok code ->
  (out_of_fuel (run fuel rs sep lang (incmp_block (l1 ++ (d, s) :: l2) ++ r) v) \/
   exists f, (f < fuel)%nat /\
     run fuel rs sep lang (incmp_block (l1 ++ (d, s) :: l2) ++ r) v =
     (* the target's code is appended after the rest of the block and r *)
     run_post f rs sep (fst (at_match lang v l1))
       (fire_vm rs sep vI d s st' ca' nsym, (incmp_block l2 ++ r) ++ code, SOk))
  /\ pos_of (match_st (v_st vI)) = pos_of (v_st v) /\ v_ca vI = v_ca v
  /\ getf (match_st (v_st vI)) FLAG_INMATCH = true /\ getf (match_st (v_st vI)) FLAG_READIN = false
  /\ v_st (fire_vm rs sep vI d s st' ca' nsym) = st' /\ v_ca (fire_vm rs sep vI d s st' ca' nsym) = ca'
  /\ v_log (fire_vm rs sep vI d s st' ca' nsym) =
     (if rs_observed rs then [EvCode nsym] else []) ++
     EvMove 1 d nsym :: EvInCmp d s true :: EvInstr op_INCMP :: block_log l1 (v_log v).
Proof. exact first_match_fires_lemma. Qed.

(* whatever applyTarget and the code fetch answer: the handler entered is the first match's *)
Theorem C03_first_match_general : forall fuel rs sep lang input l1 d s l2 r v,
  routing_start input v -> wf_block l1 -> wf_sym d -> wf_sym s ->
  no_match input l1 = true -> sel_match input s = true ->
  out_of_fuel (run fuel rs sep lang (incmp_block (l1 ++ (d, s) :: l2) ++ r) v) \/
  exists f, (f < fuel)%nat /\
    run fuel rs sep lang (incmp_block (l1 ++ (d, s) :: l2) ++ r) v =
    run_post f rs sep (fst (at_match lang v l1))
      (match_outcome rs sep d s (incmp_block l2 ++ r) (snd (at_match lang v l1))).
Proof. exact first_match_general. Qed.

(* ---- "previous" on the first page is no match --------------------------------------------------- *)
Theorem C03_prev_on_first_page_is_no_match : forall fuel rs sep lang input l1 s l2 r v,
  routing_start input v -> wf_block l1 -> wf_sym s -> wf_block l2 ->
  no_match input l1 = true -> sel_match input s = true ->
  s_path (v_st v) <> [] -> s_idx (v_st v) = 0 ->
  let vI := snd (at_match lang v l1) in
  let vN := noprev_vm vI t_prev s (match_st (v_st vI)) (v_ca vI) in
  let lv := scan_skip (fst (at_match lang v l1), vN) l2 in
  (* every remaining line of the block is passed over, whatever its selector *)
  (out_of_fuel (run fuel rs sep lang (incmp_block (l1 ++ (t_prev, s) :: l2) ++ r) v) \/
   exists f, (f < fuel)%nat /\
     run fuel rs sep lang (incmp_block (l1 ++ (t_prev, s) :: l2) ++ r) v =
     run_post f rs sep (fst lv) (snd lv, r, SOk))
  (* nothing moved, no line fired, READIN is set again (and INMATCH stays set) *)
  /\ pos_of (v_st (snd lv)) = pos_of (v_st v) /\ v_ca (snd lv) = v_ca v
  /\ v_log (snd lv) = block_log (l1 ++ (t_prev, s) :: l2) (v_log v)
  /\ getf (v_st (snd lv)) FLAG_READIN = true /\ getf (v_st (snd lv)) FLAG_INMATCH = true
  /\ getf (v_st (snd lv)) FLAG_TERMINATE = false /\ s_input (v_st (snd lv)) = Some input.
Proof. exact prev_on_first_page_lemma. Qed.

(* ... so a block ending there takes the catch path exactly as if nothing had matched *)
Theorem C03_prev_on_first_page_goes_to_catch : forall fuel rs sep lang input l1 s l2 v,
  routing_start input v -> wf_block l1 -> wf_sym s -> wf_block l2 ->
  no_match input l1 = true -> sel_match input s = true ->
  where_sym (v_st v) <> [] -> s_idx (v_st v) = 0 -> where_sym (v_st v) <> catch_sym ->
  let vI := snd (at_match lang v l1) in
  let vN := noprev_vm vI t_prev s (match_st (v_st vI)) (v_ca vI) in
  let lv := scan_skip (fst (at_match lang v l1), vN) l2 in
  out_of_fuel (run fuel rs sep lang (incmp_block (l1 ++ (t_prev, s) :: l2)) v) \/
  exists f, (f < fuel)%nat /\
    run fuel rs sep lang (incmp_block (l1 ++ (t_prev, s) :: l2)) v =
    run f rs sep (fst lv) move_catch_code
        (vset_pg (snd lv) (page_with_error (v_pg (snd lv)) (Some (msg_invalid_input (Some input))))).
Proof. exact prev_on_first_page_catch_lemma. Qed.

(* ---- at most one move ---------------------------------------------------------------------------- *)
(* Full statement (false): the theorem below without `distinct_after l2 input = true`. *)
Theorem C03_at_most_one_move_partial : forall fuel rs sep lang input l1 d s l2 r v st' ca' nsym code,
  routing_start input v -> wf_block l1 -> wf_sym d -> wf_sym s -> wf_block l2 ->
  no_match input l1 = true -> sel_match input s = true ->
  distinct_after l2 input = true ->
  let vI := snd (at_match lang v l1) in
  apply_target d (match_st (v_st vI)) (v_ca vI) = (st', ca', nsym, SOk) ->
  rs_code rs nsym = Ok code ->
  let vF := fire_vm rs sep vI d s st' ca' nsym in
  let lv := scan_skip (fst (at_match lang v l1), vF) l2 in
  (* the run arrives at r ++ (code of the target) without any line of l2 firing *)
  (out_of_fuel (run fuel rs sep lang (incmp_block (l1 ++ (d, s) :: l2) ++ r) v) \/
   exists f, (f < fuel)%nat /\
     run fuel rs sep lang (incmp_block (l1 ++ (d, s) :: l2) ++ r) v =
     run_post f rs sep (fst lv) (snd lv, r ++ code, SOk))
  /\ pos_of (v_st (snd lv)) = pos_of st' /\ v_ca (snd lv) = ca'
  /\ v_log (snd lv) = block_log l2 (v_log vF)
  (* exactly one move and one firing INCMP were added to the log *)
  /\ log_moves (v_log (snd lv)) = log_moves (v_log v) ++ [d]
  /\ log_fired (v_log (snd lv)) = log_fired (v_log v) ++ [(d, s)].
Proof. exact at_most_one_move_partial_lemma. Qed.

Theorem C03_at_most_one_move_refuted_dupsel :
  exists fuel rs sep lang input l1 d s l2 r v st' ca' nsym code,
    routing_start input v /\ getf (v_st v) FLAG_WAIT = true
    /\ wf_block l1 /\ wf_sym d /\ wf_sym s /\ wf_block l2
    /\ no_match input l1 = true /\ sel_match input s = true
    /\ apply_target d (match_st (v_st (snd (at_match lang v l1)))) (v_ca (snd (at_match lang v l1))) = (st', ca', nsym, SOk)
    /\ rs_code rs nsym = Ok code
    /\ distinct_after l2 input = false
    /\ (let '(v', b, st) := run fuel rs sep lang (incmp_block (l1 ++ (d, s) :: l2) ++ r) v in
        st = SOk /\ s_path (v_st v) = [s2b "root"]
        /\ s_path (v_st v') = [s2b "root"; s2b "foo"; s2b "bar"]
        /\ log_moves (v_log v') = log_moves (v_log v) ++ [s2b "foo"; s2b "bar"]
        /\ log_fired (v_log v') = log_fired (v_log v) ++ [(s2b "foo", s2b "1"); (s2b "bar", s2b "1")]).
Proof. exact at_most_one_move_refuted_dupsel_lemma. Qed.

(* the wildcard does not match any more once a match was made: wildcards never break the guard
   (and the engine accepts no input "*") *)
Theorem C03_wildcard_after_match_ignored : forall input l,
  input <> star -> Forall (fun ds => snd ds = star) l -> distinct_after l input = true.
Proof. exact distinct_after_wildcards. Qed.
Theorem C03_valid_input_not_wildcard : forall input, valid_input_b input = true -> input <> star.
Proof. exact valid_input_not_star. Qed.

(* ---- finding K-C03-stale-readin ------------------------------------------------------------------- *)
(* Full statement (FALSE): on EVERY resume after HALT with input i and pending code b, the session goes
   to the catch node with the invalid-input message only if i was compared with at least one INCMP
   since the resume and none matched, the message showing THAT input; code that runs out without
   executing an INCMP terminates the session.  READIN survives the HALT, so runDeadCheck can act on the
   PREVIOUS input's comparison.  Partial: guard = the resumed code starts with an INCMP block
   (decidable: starts_with_incmp), for ANY value of READIN and INMATCH left by the HALT. *)
Theorem C03_invalid_input_is_current_partial : forall fuel rs sep lang input ds l v,
  getf (v_st v) FLAG_TERMINATE = false -> s_input (v_st v) = Some input -> getf (v_st v) FLAG_WAIT = true ->
  flags_ok (v_st v) ->
  wf_block (ds :: l) -> no_match input (ds :: l) = true ->
  where_sym (v_st v) <> [] -> where_sym (v_st v) <> catch_sym ->
  starts_with_incmp (incmp_block (ds :: l)) = true /\
  (out_of_fuel (run fuel rs sep lang (incmp_block (ds :: l)) v) \/
   exists f lang1 v1, (f < fuel)%nat /\
     run fuel rs sep lang (incmp_block (ds :: l)) v = run f rs sep lang1 move_catch_code v1
     (* the message shows the input of THIS request *)
     /\ p_err (v_pg v1) = Some (msg_invalid_input (Some input))
     (* which was compared with every line of the block, and nothing moved before MOVE _catch *)
     /\ v_log v1 = block_log (ds :: l) (v_log v)
     /\ log_incmps (v_log v1) = (List.length (ds :: l) + log_incmps (v_log v))%nat
     /\ pos_of (v_st v1) = pos_of (v_st v) /\ v_ca v1 = v_ca v).
Proof. exact invalid_input_is_current_partial_lemma. Qed.

Theorem C03_starts_with_incmp_block : forall ds l r,
  wf_block (ds :: l) -> starts_with_incmp (incmp_block (ds :: l) ++ r) = true.
Proof. exact incmp_block_starts. Qed.

(* root = HALT; INCMP foo 1, _catch = HALT; MOVE end1, end1 = MOUT bye 0; after "" and "x" the engine
   resumes with "y" on the code MOVE end1 *)
Theorem C03_refuted_stale_readin :
  exists fuel rs sep lang input b v,
    (* a resume after HALT with input "y"; READIN was left set by the previous, unmatched input "x" *)
    getf (v_st v) FLAG_TERMINATE = false /\ s_input (v_st v) = Some input /\ getf (v_st v) FLAG_WAIT = true
    /\ flags_ok (v_st v) /\ getf (v_st v) FLAG_READIN = true
    /\ where_sym (v_st v) = catch_sym /\ s_path (v_st v) = [s2b "root"; s2b "_catch"]
    (* the pending code is MOVE end1: outside the guard *)
    /\ b = encode (IMove (s2b "end1")) /\ starts_with_incmp b = false
    /\ (let '(v', b', st) := run fuel rs sep lang b v in
        (* no INCMP is executed, yet "y" is reported invalid, the session does not terminate and the
           stack has grown by two levels *)
        st = SOk /\ log_incmps (v_log v') = log_incmps (v_log v)
        /\ p_err (v_pg v') = Some (s2b "invalid input: 'y'")
        /\ getf (v_st v') FLAG_TERMINATE = false /\ getf (v_st v') FLAG_READIN = true
        /\ s_path (v_st v') = [s2b "root"; s2b "_catch"; s2b "end1"; s2b "_catch"])
    (* the same machine with READIN clear terminates, as intended *)
    /\ (let '(v', b', st) := run fuel rs sep lang b (vset_st v (resetf (v_st v) FLAG_READIN)) in
        st = SOk /\ p_err (v_pg v') = None /\ getf (v_st v') FLAG_TERMINATE = true
        /\ s_path (v_st v') = [s2b "root"; s2b "_catch"; s2b "end1"]).
Proof. exact stale_readin_refuted_lemma. Qed.

(* ---- non-vacuity ------------------------------------------------------------------------------------ *)
(* machine: stopped at root's HALT (path [root], WAIT set), page idx, the client's answer as input *)
Example C03_start_nonvacuous :
  getf (v_st (ex_vm 0 (s2b "x"))) FLAG_TERMINATE = false /\ s_input (v_st (ex_vm 0 (s2b "x"))) = Some (s2b "x")
  /\ getf (v_st (ex_vm 0 (s2b "x"))) FLAG_WAIT = true /\ (8 <= List.length (s_flags (v_st (ex_vm 0 (s2b "x")))))%nat
  /\ s_path (v_st (ex_vm 0 (s2b "x"))) = [s2b "root"].
Proof. vm_compute. repeat split; try reflexivity. repeat constructor. Qed.

(* no match: input "x" against INCMP foo 1; INCMP bar 2 ends at _catch with the error text *)
Example C03_no_match_nonvacuous :
  let l := [(s2b "foo", s2b "1"); (s2b "bar", s2b "2")] in
  no_match (s2b "x") l = true /\
  let '(v', b, st) := run 20 (app_rsrc ex_app) [] None (incmp_block l) (ex_vm 0 (s2b "x")) in
  st = SOk /\ s_path (v_st v') = [s2b "root"; s2b "_catch"]
  /\ p_err (v_pg v') = Some (s2b "invalid input: 'x'")
  /\ log_moves (v_log v') = [s2b "root"; s2b "_catch"] /\ log_fired (v_log v') = [].
Proof. vm_compute. repeat split. Qed.

(* first match: input "2" against INCMP foo 1; INCMP bar 2; INCMP foo * moves to bar only *)
Example C03_first_match_nonvacuous :
  let l1 := [(s2b "foo", s2b "1")] in let l2 := [(s2b "foo", s2b "*")] in
  no_match (s2b "2") l1 = true /\ sel_match (s2b "2") (s2b "2") = true /\ distinct_after l2 (s2b "2") = true /\
  let '(v', b, st) := run 20 (app_rsrc ex_app) [] None (incmp_block (l1 ++ (s2b "bar", s2b "2") :: l2)) (ex_vm 0 (s2b "2")) in
  st = SOk /\ s_path (v_st v') = [s2b "root"; s2b "bar"]
  /\ log_fired (v_log v') = [(s2b "bar", s2b "2")] /\ p_err (v_pg v') = None.
Proof. vm_compute. repeat split. Qed.

(* "previous" on the first page: INCMP < 22; INCMP foo * with input "22" on page 0 goes to _catch,
   the wildcard after it is passed over; on page 1 the same block goes back to page 0 *)
Example C03_prev_nonvacuous :
  let l := [(t_prev, s2b "22"); (s2b "foo", s2b "*")] in
  (let '(v', b, st) := run 20 (app_rsrc ex_app) [] None (incmp_block l) (ex_vm 0 (s2b "22")) in
   st = SOk /\ pos_of (v_st v') = ([s2b "root"; s2b "_catch"], 0)
   /\ p_err (v_pg v') = Some (s2b "invalid input: '22'") /\ log_fired (v_log v') = [])
  /\
  (let '(v', b, st) := run 20 (app_rsrc ex_app) [] None (incmp_block l) (ex_vm 1 (s2b "22")) in
   st = SOk /\ pos_of (v_st v') = ([s2b "root"], 0) /\ log_fired (v_log v') = [(t_prev, s2b "22")]).
Proof. vm_compute. repeat split. Qed.

(* engine level, corpus case dupsel: requests "" and "1" leave the session at root/foo/bar *)
Example C03_dupsel_engine :
  let e := ex_long (new_engine ex_cfg None [] []) [[]; s2b "1"] in
  s_path (v_st (e_v e)) = [s2b "root"; s2b "foo"; s2b "bar"]
  /\ log_fired (v_log (e_v e)) = [(s2b "foo", s2b "1"); (s2b "bar", s2b "1")].
Proof. vm_compute. repeat split. Qed.

(* engine level, K-C03-stale-readin: requests "", x, y, z on the witness application (same outputs as the
   real engine): every input after "x" is answered "invalid input" and the stack grows by two levels *)
Example C03_stale_readin_engine :
  let '(e, outs) := stale_long (new_engine ex_cfg None [] []) [[]; s2b "x"; s2b "y"; s2b "z"] in
  outs = [s2b "root"; s2b "invalid input: 'x'" ++ [10] ++ s2b "catch";
          s2b "invalid input: 'y'" ++ [10] ++ s2b "catch"; s2b "invalid input: 'z'" ++ [10] ++ s2b "catch"]
  /\ s_path (v_st (e_v e)) = [s2b "root"; s2b "_catch"; s2b "end1"; s2b "_catch"; s2b "end1"; s2b "_catch"]
  /\ getf (v_st (e_v e)) FLAG_TERMINATE = false.
Proof. vm_compute. repeat split. Qed.

Print Assumptions C03_run_unfold.
Print Assumptions C03_resume_is_start.
Print Assumptions C03_stale_readin_irrelevant.
Print Assumptions C03_no_match_goes_to_catch.
Print Assumptions C03_no_match_continues.
Print Assumptions C03_first_match_fires.
Print Assumptions C03_first_match_general.
Print Assumptions C03_prev_on_first_page_is_no_match.
Print Assumptions C03_prev_on_first_page_goes_to_catch.
Print Assumptions C03_at_most_one_move_partial.
Print Assumptions C03_at_most_one_move_refuted_dupsel.
Print Assumptions C03_wildcard_after_match_ignored.
Print Assumptions C03_valid_input_not_wildcard.
Print Assumptions C03_invalid_input_is_current_partial.
Print Assumptions C03_starts_with_incmp_block.
Print Assumptions C03_refuted_stale_readin.
