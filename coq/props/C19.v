(* C19 — Independent sessions can be served concurrently without interference   (claimed: PARTIAL)

   Property text: "Sessions that share nothing but immutable application data (bytecode, templates,
   labels) and are served at the same time on different goroutines - each with its own engine, state,
   cache and store handle - produce exactly the outputs they produce when served one after another,
   with no data race.  The library keeps no hidden mutable state that one session's execution can leak
   into another's."

   A theorem cannot exhibit a scheduler or a data race.  What IS logic is stated and proved here:

   (1) the slice-aliasing discipline of the one shared-memory object the property's anchors name, the
       pending-code buffer `b` of vm/runner.go (model/SliceHeap.v: Go slices = (array, offset, len, cap),
       `append` writes in place when the capacity allows, resource code slices live in SHARED arrays with
       arbitrary spare capacity, the growth of reallocated arrays is an arbitrary function).  For ANY
       number of sessions, ANY interleaving of their buffer operations, any capacities and growth:
         C19_no_write_to_shared            no write ever lands in a shared array; shared arrays keep
                                           their initial content (spare capacity included)
         C19_sessions_refine_values        what every session can read of its buffers after each of its
                                           steps is what value semantics (VmModel's plain byte lists) gives
         C19_sessions_noninterfering       ... hence the same as when its operations run alone
         C19_vm_run_on_heap                every Run of VmModel (any program, state, fuel) is such a
                                           sequence of repaired operations, and replaying it on the heap
                                           among arbitrary other sessions yields VmModel's code
         C19_adopt_refuted                 with the pre-repair CATCH (`b = bh`, OpAdopt) the statement is
                                           false: two sessions on ONE goroutine, session 1 reads [2;2]
                                           where alone it reads [1;1], and the shared array is overwritten
                                           (defect repaired in /repo by 800b081)
   (2) request-level interleavings: the request functions of EngineModel take and return only the
       served session's engine (resp. store) and the immutable resource; any interleaving of requests
       gives every session its solo responses and final state
         C19_requests_noninterfering_long / _persisted

   NOT covered by any theorem, validated only by runs of the real code under the Go race detector
   (harness drivers `alias` and `race`, go build -race): interleavings below the request level, the Go
   memory model, and that package-level variables (vm input validators, state.FlagDebugger,
   logging.LogWriter, ...) are written only by set-up calls (list in notes/integration_conc.md). *)
From Vise Require Import Bytes Errors Consts EngConsts Codec CacheModel StateModel NavModel RenderModel VmModel EngineModel SliceHeap SliceHeapProofs.
Local Open Scope N_scope.

Theorem C19_init_invariant : forall tbl, winv tbl (world_init tbl).
Proof. exact winv_init. Qed.

Theorem C19_no_write_to_shared : forall c w sched,
  winv (sc_res c) w -> sched_repaired sched = true ->
  Forall writes_owned (snd (run_sched c w sched)) /\
  shared_intact (sc_res c) (w_heap (fst (run_sched c w sched))).
Proof. exact no_write_to_shared. Qed.

Theorem C19_sessions_refine_values : forall c sched w w' tr,
  sched_repaired sched = true -> winv (sc_res c) w -> run_sched c w sched = (w', tr) ->
  winv (sc_res c) w' /\
  (forall s, obs_of s tr = pure_run (sc_res c) (wobs w s) (map snd (sched_of s sched))) /\
  (forall s, wobs w' s = pure_exec (sc_res c) (wobs w s) (map snd (sched_of s sched))) /\
  Forall writes_owned tr.
Proof. exact run_refines. Qed.

Theorem C19_sessions_noninterfering : forall c c' w sched s,
  sc_res c' = sc_res c -> winv (sc_res c) w -> sched_repaired sched = true ->
  obs_of s (snd (run_sched c w sched)) = obs_of s (snd (run_sched c' w (sched_of s sched))).
Proof. exact noninterference. Qed.

Theorem C19_vm_run_on_heap : forall a sp c fuel sep lang b code v v' b' st,
  sc_res c = tbl_of a sp ->
  run fuel (app_rsrc a) sep lang b v = (v', b', st) ->
  exists ops, forallb op_repaired ops = true /\
    forall w s sched w' tr,
      winv (sc_res c) w -> wobs w s = (b, code) ->
      sched_repaired sched = true -> map snd (sched_of s sched) = ops ->
      run_sched c w sched = (w', tr) -> wobs w' s = (b', code).
Proof. exact vm_run_on_heap. Qed.

Theorem C19_adopt_refuted :
  exists c w sched s,
    winv (sc_res c) w /\ sched_repaired sched = false /\
    obs_of s (snd (run_sched c w sched)) <> obs_of s (snd (run_sched c w (sched_of s sched))) /\
    last (obs_of s (snd (run_sched c w sched))) ([], []) = ([2; 2], []) /\
    last (obs_of s (snd (run_sched c w (sched_of s sched)))) ([], []) = ([1; 1], []) /\
    w_heap (fst (run_sched c w sched)) (OShared, 0) <> res_heap (sc_res c) (OShared, 0).
Proof. exact adopt_refuted. Qed.

Theorem C19_requests_noninterfering_long : forall fuel rs cf sched (w : N -> engine) sid,
  of_sid sid (snd (serve (request_long fuel rs cf) w sched))
  = snd (serve_solo (request_long fuel rs cf) (w sid) (of_sid sid sched)) /\
  fst (serve (request_long fuel rs cf) w sched) sid
  = fst (serve_solo (request_long fuel rs cf) (w sid) (of_sid sid sched)).
Proof. exact requests_long_noninterfering. Qed.

Theorem C19_requests_noninterfering_persisted : forall fuel rs cf sched (w : N -> pworld) sid,
  of_sid sid (snd (serve (request_persisted fuel rs cf) w sched))
  = snd (serve_solo (request_persisted fuel rs cf) (w sid) (of_sid sid sched)) /\
  fst (serve (request_persisted fuel rs cf) w sched) sid
  = fst (serve_solo (request_persisted fuel rs cf) (w sid) (of_sid sid sched)).
Proof. exact requests_persisted_noninterfering. Qed.

(* non-vacuity: three sessions, twelve interleaved repaired steps on a resource with spare capacity;
   in-place appends happen (steps 3, 4), a reallocation happens (step 11), the shared array is intact *)
Example C19_nonvacuous :
  sched_repaired repaired_sched = true /\
  obs_of 1 (snd (run_sched adopt_cfg (world_init adopt_tbl) repaired_sched))
  = [([9; 9; 9], []); ([9; 9; 9; 1; 1], []); ([1; 1], []); ([], [1; 1]); ([1; 1], []); ([1; 1; 2; 2], []); ([], [])] /\
  obs_of 2 (snd (run_sched adopt_cfg (world_init adopt_tbl) repaired_sched))
  = [([9; 9; 9], []); ([9; 9; 9; 2; 2], []); ([2], [])] /\
  map te_writes (snd (run_sched adopt_cfg (world_init adopt_tbl) repaired_sched))
  = [[(OOwned 1, 0)]; [(OOwned 2, 0)]; [(OOwned 1, 0)]; [(OOwned 2, 0)]; []; [(OOwned 3, 0)]; []; [];
     [(OOwned 3, 1)]; []; [(OOwned 1, 1)]; []] /\
  w_heap (fst (run_sched adopt_cfg (world_init adopt_tbl) repaired_sched)) (OShared, 0) = [9; 9; 9] ++ rep 238 8.
Proof. exact repaired_example. Qed.

Print Assumptions C19_init_invariant.
Print Assumptions C19_no_write_to_shared.
Print Assumptions C19_sessions_refine_values.
Print Assumptions C19_sessions_noninterfering.
Print Assumptions C19_vm_run_on_heap.
Print Assumptions C19_adopt_refuted.
Print Assumptions C19_requests_noninterfering_long.
Print Assumptions C19_requests_noninterfering_persisted.
Print Assumptions C19_nonvacuous.
