(* C18 (resource part) — the engine model's resource tables are resource.DbResource over the memory
   store, and a lookup with no translation returns the default-language entry. *)
From Vise Require Import Bytes Errors Consts VmModel DbKey DbModel DbProofs ResModel ResProofs.
Local Open Scope N_scope.

(* VmModel.app_rsrc (what the VM model consults) = the model of resource/db.go
   (SetPrefix(type); mustSafe; Get(key) with the language of the context; GetMenu's "_menu" key and
   not-found => the title itself) over the memory store that buildResource loads (ResModel.load_app).
   Guards: wf_res_keys = no table holds a key twice (tables are read first-match, the store keeps the
   last Put); res_lang_ok = the language code has three bytes (an empty code means "no language" to
   ToDbKey but "sym_" to lookup_lang).
   FULL STATEMENT without wf_res_keys is false: C18_refuted_duplicate_key. *)
Theorem C18_resource_refines_db : forall a lang sym,
  wf_res_keys a = true -> res_lang_ok lang = true ->
  rs_tpl (app_rsrc a) lang sym = snd (db_get_template (load_app a) res_default_typs lang sym).
Proof. exact resource_tpl_refines_db. Qed.

Theorem C18_resource_menu_refines_db : forall a lang title,
  wf_res_keys a = true -> res_lang_ok lang = true ->
  rs_menu (app_rsrc a) lang title = snd (db_get_menu (load_app a) res_default_typs lang title).
Proof. exact resource_menu_refines_db. Qed.

Theorem C18_resource_code_refines_db : forall a lang sym,
  wf_res_keys a = true ->
  rs_code (app_rsrc a) sym = snd (db_get_code (load_app a) res_default_typs lang sym).
Proof. exact resource_code_refines_db. Qed.

(* Corollary through C10_mem_refines_spec: read against the C10 reference map
   (type, language, key) -> value of the same store written through SetLanguage + Put (load_ops_tr:
   a table key "sym_xyz" is the entry of symbol sym in language xyz; it produces the same store,
   ResProofs.load_tr_eq), a language-scoped lookup returns the translation if one was stored, else
   the default-language entry, else not-found (templates) / the title itself (menu labels).
   Guard: hist_ok of the lookup history = the C10 key guard: no symbol (after splitting off one
   language suffix) ends in "_" + three bytes.  Without it the reading is false:
   C18_refuted_suffix_collision. *)
Theorem C18_template_translation_then_default : forall a lang sym,
  wf_res_keys a = true -> res_lang_ok lang = true ->
  hist_ok spec_init (lookup_hist a DATATYPE_TEMPLATE lang sym) = true ->
  rs_tpl (app_rsrc a) lang sym
  = match ref_lookup (sp_map (ref_state (load_ops_tr a))) DATATYPE_TEMPLATE lang sym with
    | Some v => Ok v
    | None => Err ENotFound
    end.
Proof. exact template_translation_then_default. Qed.

Theorem C18_menu_translation_then_default_then_title : forall a lang title,
  wf_res_keys a = true -> res_lang_ok lang = true ->
  hist_ok spec_init (lookup_hist a DATATYPE_MENU lang (title ++ menu_suffix)) = true ->
  rs_menu (app_rsrc a) lang title
  = match ref_lookup (sp_map (ref_state (load_ops_tr a))) DATATYPE_MENU lang (title ++ menu_suffix) with
    | Some v => Ok v
    | None => Ok title
    end.
Proof. exact menu_translation_then_default_then_title. Qed.

(* refutation of the unguarded refinement: with a key stored twice the table answers with the first
   entry, the store with the last Put *)
Example C18_refuted_duplicate_key :
  exists a sym, wf_res_keys a = false
    /\ rs_tpl (app_rsrc a) None sym = Ok (s2b "A")
    /\ snd (db_get_template (load_app a) res_default_typs None sym) = Ok (s2b "B").
Proof.
  exists (mkApp [] [(s2b "foo", s2b "A"); (s2b "foo", s2b "B")] [] []), (s2b "foo"). vm_compute. repeat split.
Qed.

(* the language-suffix collision, shared by the model and the store (so the refinement holds, but
   the reference-map reading does not): the template stored for the symbol "foo_nor" is what
   language "nor" sees for the symbol "foo"; the guard of the corollary rejects the lookup of
   "foo_nor", and the reference map holds no default-language entry for it although the lookup
   succeeds *)
Example C18_refuted_suffix_collision :
  exists a, wf_res_keys a = true
    /\ rs_tpl (app_rsrc a) (Some (s2b "nor")) (s2b "foo") = Ok (s2b "X")
    /\ snd (db_get_template (load_app a) res_default_typs (Some (s2b "nor")) (s2b "foo")) = Ok (s2b "X")
    /\ rs_tpl (app_rsrc a) None (s2b "foo_nor") = Ok (s2b "X")
    /\ hist_ok spec_init (lookup_hist a DATATYPE_TEMPLATE None (s2b "foo_nor")) = false
    /\ ref_lookup (sp_map (ref_state (load_ops_tr a))) DATATYPE_TEMPLATE None (s2b "foo_nor") = None.
Proof. exists (mkApp [] [(s2b "foo_nor", s2b "X")] [] []). vm_compute. repeat split. Qed.

(* non-vacuity: a small application with a translated template and menu label *)
Example C18res_nonvacuous :
  let a := mkApp [(s2b "root", [0; 7])]
                 [(s2b "root", s2b "hello"); (s2b "root_nor", s2b "hei"); (s2b "foo", s2b "f")]
                 [(s2b "x_menu", s2b "X"); (s2b "x_menu_nor", s2b "Eks")] [] in
  let nor := Some (s2b "nor") in let swa := Some (s2b "swa") in
  wf_res_keys a = true
  /\ hist_ok spec_init (lookup_hist a DATATYPE_TEMPLATE nor (s2b "root")) = true
  /\ hist_ok spec_init (lookup_hist a DATATYPE_TEMPLATE swa (s2b "bar")) = true
  /\ hist_ok spec_init (lookup_hist a DATATYPE_MENU swa (s2b "x" ++ menu_suffix)) = true
  /\ safe (d_base (load_app a)) = true
  /\ rs_tpl (app_rsrc a) nor (s2b "root") = Ok (s2b "hei")
  /\ snd (db_get_template (load_app a) res_default_typs nor (s2b "root")) = Ok (s2b "hei")
  /\ rs_tpl (app_rsrc a) swa (s2b "root") = Ok (s2b "hello")
  /\ snd (db_get_template (load_app a) res_default_typs swa (s2b "root")) = Ok (s2b "hello")
  /\ rs_tpl (app_rsrc a) swa (s2b "bar") = Err ENotFound
  /\ ref_lookup (sp_map (ref_state (load_ops_tr a))) DATATYPE_TEMPLATE nor (s2b "root") = Some (s2b "hei")
  /\ snd (db_get_menu (load_app a) res_default_typs nor (s2b "x")) = Ok (s2b "Eks")
  /\ rs_menu (app_rsrc a) swa (s2b "x") = Ok (s2b "X")
  /\ snd (db_get_menu (load_app a) res_default_typs swa (s2b "y")) = Ok (s2b "y")
  /\ snd (db_get_code (load_app a) res_default_typs nor (s2b "root")) = Ok [0; 7]
  /\ snd (db_staticload (load_app a) res_default_typs nor (s2b "root")) = Err EGen.
Proof. vm_compute. repeat split. Qed.

Print Assumptions C18_resource_refines_db.
Print Assumptions C18_resource_menu_refines_db.
Print Assumptions C18_resource_code_refines_db.
Print Assumptions C18_template_translation_then_default.
Print Assumptions C18_menu_translation_then_default_then_title.
