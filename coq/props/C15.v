(* C15 — Malformed bytecode is rejected with an error, never a crash or a silent accept. *)
From Vise Require Import Bytes Errors Consts Codec CodecProofs.
Local Open Scope N_scope.

(* for every byte string: the VM's instruction decoding, the disassembler's parse and its
   listing never hit a Go run-time panic site (index or slice out of range) *)
Theorem C15_decode_never_panics : forall b, is_panic (decode_one b) = false.
Proof. exact decode_one_no_panic. Qed.

Theorem C15_parse_all_never_panics : forall b, is_panic (parse_all b) = false.
Proof. exact parse_all_no_panic. Qed.

Theorem C15_to_string_never_panics : forall b, is_panic (to_string b) = false.
Proof. exact to_string_no_panic. Qed.

(* success is reported only for input that the strict reference grammar accepts (complete
   instructions, defined opcodes, integer width <= 4, nothing left over), with the same
   instructions *)
Theorem C15_accept_only_wellformed : forall b p, parse_all b = Ok p -> strict_all b = Some p.
Proof. exact accept_only_wellformed_lemma. Qed.

Theorem C15_decode_one_strict : forall b i r, decode_one b = Ok (i, r) -> strict_one b = Some (i, r).
Proof. exact decode_one_strict. Qed.

(* non-vacuity and the three one-byte-from-valid witnesses that used to be accepted or to panic *)
Example C15_examples :
  parse_all [0;3;3;102;111;111] = Err EGen            (* LOAD foo, size missing *)
  /\ parse_all [0;6;3;102;111] = Err EGen             (* MOVE, symbol one byte short *)
  /\ parse_all [0;3;3;102;111;111;5;0;0;0;0;0] = Err EGen  (* integer width 5 *)
  /\ parse_all [0;13] = Err EGen                      (* undefined opcode *)
  /\ parse_all [0;3;3;102;111;111;1;42;0;7] = Ok [ILoad (s2b "foo") 42; IHalt].
Proof. vm_compute. auto 6. Qed.

Print Assumptions C15_decode_never_panics.
Print Assumptions C15_parse_all_never_panics.
Print Assumptions C15_to_string_never_panics.
Print Assumptions C15_accept_only_wellformed.
Print Assumptions C15_decode_one_strict.
