(* C20 / C06 / C01 at the level of the interactive driver engine.Loop (engine/loop.go).

   engine.Loop is the driver the examples and the `dev/interactive` tool use: it serves ONE
   long-lived engine from a reader, one request per input line, and writes every response followed by
   a line feed.  The request-level theorems (props/C01.v every response fits; props/C06.v blocked
   while TERMINATE is set; props/C20.v graceful end, C20_graceful_end_long) speak about
   request_long.  The theorems below reduce Loop to it, for ALL resources, configurations, engines,
   fuel, initial values and reader contents (no guard, no well-formedness hypothesis):

   C20loop_output_is_requests     the bytes Loop writes are the concatenation, over the requests it
                                  makes, of resp_chunk: the Flush output followed by LF when Flush
                                  succeeded with a non-empty output; the bare output of a failed
                                  Flush; nothing for a request whose Exec failed (Loop returns before
                                  Flush).  The requests made are loop_prefix of the responses of
                                  request_long along  initial :: the trimmed complete lines: up to and
                                  including the first that does not go on (cont = false, an Exec
                                  error, a Flush error other than ErrFlushNoExec on the first request).
                                  The value returned is prefix_stat (nil on cont = false and on EOF;
                                  the first Exec's error as it is; "unexpected termination" for a
                                  later one; a Flush error as it is).
   C20loop_requests_are_driver_requests   each request made is literally
                                  snd (request_long fuel rs c e_k input_k) with e_k the engine of the
                                  request driver after the first k inputs (eng_after) — a long_reach
                                  engine whenever the initial one is — and all earlier requests went
                                  on.  This is what lets every request-level theorem transfer
                                  (C01_reachable_engines, C01_flush_fits, C20_graceful_end_long,
                                  C06 blocked ... take such an engine as their hypothesis).
   C20loop_engine_is_requests     the engine Loop ends with (hence what the deferred Finish saves,
                                  loop_saved) is the request driver's engine after the requests made,
                                  unless the last Exec failed with an error (then Loop has NOT flushed;
                                  request_long has).
   C20loop_every_chunk_fits       C01: from any engine satisfying the page invariant PgInv (new_engine:
                                  C01_page_invariant_established; the harness engine:
                                  C20loop_harness_engine_inv) and 0 < OutputSize, the Flush output of
                                  EVERY request Loop makes is within OutputSize in the arithmetic of
                                  the code (uint32), and the chunk written for it is that output, that
                                  output plus one LF, or nothing.  Corollary of
                                  SizeProofs.long_responses_fit32 (C01_every_response_fits_from).
   C20loop_written_bound_partial  absolute form under the named guard of C01_flush_fits (every output
                                  below 4 GiB; it cannot be dropped: C01_check_refuted_uint32wrap):
                                  every chunk is at most OutputSize + 1 bytes and the total written is
                                  at most (#requests) * (OutputSize + 1).
   C20loop_stops_at_end           C06/C20: if on the reader content r1 (ending with LF) some request
                                  does not go on, then appending ANYTHING to r1 changes nothing: same
                                  bytes written, same value returned, same engine (state, cache, world,
                                  ghost log — so nothing was executed).  C20loop_stops_at_cont_false:
                                  the special case "a request reported cont = false".
   C20loop_drops_unterminated_tail   EOF behaviour: bytes after the last LF are never executed
                                  (bufio.ReadString returns them together with io.EOF and Loop returns
                                  on io.EOF first).  C20loop_ignores_tail: for EVERY reader content Loop
                                  behaves as on its part up to the last LF; C20loop_reader_decomposition.
                                  OBSERVATION, not a defect: no property of properties.jsonl speaks about
                                  how Loop reads its input (C06, C07, C20 quantify over request
                                  histories); a user who types a last line and closes the input
                                  without a newline gets no response for it, silently, and Loop
                                  returns nil.
   C20loop_trim_space_ends        what reaches Exec for a line neither starts nor ends with an ASCII
                                  white-space byte and is a segment of the line.

   The model of Loop (model/LoopModel.v: eng_loop, loop_lines, trim_space) is tied to the real
   engine.Loop by the differential driver `vh loop` (go/cmd/vh/loop.go, corr/LoopCorr.v). *)
From Coq Require Import Lia.
From Vise Require Import Bytes Errors Consts EngConsts Codec CacheModel StateModel NavModel RenderModel VmModel EngineModel
  LoopModel CorrBase EngineCorr RenderProofs SizeProofs LoopProofs.
Local Open Scope N_scope.

(* ---- (a) Loop is its requests ------------------------------------------------------------- *)
Theorem C20loop_output_is_requests : forall rs c fuel e initial reader,
  let resps := long_resps fuel rs c e (loop_inputs initial reader) in
  fst (fst (eng_loop rs c fuel e initial reader)) = List.concat (map resp_chunk (loop_prefix true resps))
  /\ snd (fst (eng_loop rs c fuel e initial reader)) = prefix_stat true resps.
Proof. exact loop_output_is_requests. Qed.

Theorem C20loop_long_resps_are_long_responses : forall fuel rs c inputs e,
  long_resps fuel rs c e inputs = long_responses rs c e (map (pair fuel) inputs).
Proof. exact long_resps_long_responses. Qed.

Theorem C20loop_requests_are_driver_requests : forall rs c fuel e initial reader k r,
  let inputs := loop_inputs initial reader in
  nth_error (loop_prefix true (long_resps fuel rs c e inputs)) k = Some r ->
  exists i, nth_error inputs k = Some i
    /\ r = snd (request_long fuel rs c (eng_after fuel rs c e (firstn k inputs)) i)
    /\ (long_reach rs c e -> long_reach rs c (eng_after fuel rs c e (firstn k inputs)))
    /\ all_go_on true (firstn k (loop_prefix true (long_resps fuel rs c e inputs))) = true.
Proof. exact loop_requests_are_driver_requests. Qed.

Theorem C20loop_requests_are_prefix : forall l first,
  loop_prefix first l = firstn (List.length (loop_prefix first l)) l.
Proof. exact loop_prefix_firstn. Qed.

Theorem C20loop_engine_is_requests : forall rs c fuel e initial reader,
  let inputs := loop_inputs initial reader in
  let made := loop_prefix true (long_resps fuel rs c e inputs) in
  Forall no_exec_error made ->
  snd (eng_loop rs c fuel e initial reader) = eng_after fuel rs c e (firstn (List.length made) inputs).
Proof. exact loop_engine_is_requests. Qed.

(* Loop over a persister (store without a record): the record in the store afterwards is the
   request driver's session after the last request Loop made — one Finish, on every exit *)
Theorem C20loop_stored_is_requests : forall rs c fuel initial reader,
  let e := loop_persisted_init c in
  let inputs := loop_inputs initial reader in
  let made := loop_prefix true (long_resps fuel rs c e inputs) in
  let e_last := eng_after fuel rs c e (firstn (List.length made) inputs) in
  Forall no_exec_error made -> e_initd e_last = true ->
  loop_stored c (eng_loop rs c fuel e initial reader) = Some (snap_of (v_st (e_v e_last)) (v_ca (e_v e_last))).
Proof. exact loop_stored_is_requests. Qed.

(* ---- (b) C01 ---------------------------------------------------------------------------------- *)
Theorem C20loop_every_chunk_fits : forall rs c fuel e initial reader,
  PgInv c (e_v e) -> 0 < c_out c ->
  let made := loop_prefix true (long_resps fuel rs c e (loop_inputs initial reader)) in
  fst (fst (eng_loop rs c fuel e initial reader)) = List.concat (map resp_chunk made)
  /\ Forall (fun r => w32 (len (r_out r)) <= c_out c
                      /\ (resp_chunk r = [] \/ resp_chunk r = r_out r \/ resp_chunk r = r_out r ++ [LF])) made.
Proof. exact loop_every_chunk_fits. Qed.

Theorem C20loop_written_bound_partial : forall rs c fuel e initial reader,
  PgInv c (e_v e) -> 0 < c_out c ->
  let made := loop_prefix true (long_resps fuel rs c e (loop_inputs initial reader)) in
  Forall (fun r => len (r_out r) < 4294967296) made ->
  Forall (fun r => len (resp_chunk r) <= c_out c + 1) made
  /\ len (fst (fst (eng_loop rs c fuel e initial reader))) <= len made * (c_out c + 1).
Proof. exact loop_written_bound_partial. Qed.

Theorem C20loop_harness_engine_inv : forall c, PgInv c (e_v (long_init c)).
Proof. exact long_init_inv. Qed.

(* ---- (c) nothing after the end ------------------------------------------------------------------ *)
Theorem C20loop_stops_at_end : forall rs c fuel e initial r1 r2,
  ends_nl r1 ->
  all_go_on true (long_resps fuel rs c e (loop_inputs initial r1)) = false ->
  eng_loop rs c fuel e initial (r1 ++ r2) = eng_loop rs c fuel e initial r1.
Proof. exact loop_stops_at_end. Qed.

Theorem C20loop_stops_at_cont_false : forall rs c fuel e initial r1 r2 r,
  ends_nl r1 ->
  In r (long_resps fuel rs c e (loop_inputs initial r1)) -> r_cont r = false ->
  eng_loop rs c fuel e initial (r1 ++ r2) = eng_loop rs c fuel e initial r1.
Proof. exact loop_stops_at_cont_false. Qed.

(* the for loop itself, on lists of lines *)
Theorem C20loop_rest_stops : forall fuel rs c l1 l2 e,
  all_go_on false (long_resps fuel rs c e l1) = false ->
  loop_rest fuel rs c e (l1 ++ l2) = loop_rest fuel rs c e l1.
Proof. exact loop_rest_stops. Qed.

(* ---- (d) the unterminated tail -------------------------------------------------------------------- *)
Theorem C20loop_drops_unterminated_tail : forall rs c fuel e initial r tail,
  ends_nl r -> ~ In LF tail ->
  fst (loop_lines (r ++ tail)) = fst (loop_lines r)
  /\ eng_loop rs c fuel e initial (r ++ tail) = eng_loop rs c fuel e initial r.
Proof. exact loop_drops_unterminated_tail. Qed.

Theorem C20loop_reader_decomposition : forall reader,
  let complete := List.concat (fst (split_lines reader)) in
  let tail := snd (split_lines reader) in
  reader = complete ++ tail /\ ends_nl complete /\ ~ In LF tail.
Proof. exact loop_reader_decomposition. Qed.

Theorem C20loop_ignores_tail : forall rs c fuel e initial reader,
  eng_loop rs c fuel e initial reader
  = eng_loop rs c fuel e initial (List.concat (fst (split_lines reader))).
Proof. exact loop_ignores_tail. Qed.

Theorem C20loop_lines_of_concatenation : forall r1 r2,
  ends_nl r1 ->
  loop_lines (r1 ++ r2) = (fst (loop_lines r1) ++ fst (loop_lines r2), snd (loop_lines r2)).
Proof. exact loop_lines_app. Qed.

(* ---- TrimSpace ---------------------------------------------------------------------------------------- *)
Theorem C20loop_trim_space_ends : forall s,
  (forall b r, trim_space s = b :: r -> ascii_space_b b = false)
  /\ (forall b r, trim_space s = r ++ [b] -> ascii_space_b b = false)
  /\ exists p q, s = p ++ trim_space s ++ q.
Proof. exact trim_space_ends. Qed.

(* ---- non-vacuity ---------------------------------------------------------------------------------------- *)
(* root halts and offers "1" -> end1; end1 loads " see you" and halts (graceful end).
   Reader "1\n0\n": two requests; the session ends at the second; "0" is never executed.
   (ghost log: 13 events in all three runs) *)
Example C20loop_nonvacuous_graceful_end :
  wit_loop_run None ("1" ++ lf_s ++ "0" ++ lf_s)
    = (s2b "root" ++ [LF] ++ s2b "bye see you" ++ [LF], LOk, [], 13%nat)
  /\ wit_loop_run None ("1" ++ lf_s) = wit_loop_run None ("1" ++ lf_s ++ "0" ++ lf_s)
  /\ wit_loop_run None ("1" ++ lf_s ++ "!bad" ++ lf_s ++ "1") = wit_loop_run None ("1" ++ lf_s).
Proof. vm_compute. repeat split; reflexivity. Qed.

(* the hypotheses of C20loop_stops_at_cont_false / C20loop_stops_at_end on that run *)
Example C20loop_nonvacuous_stop_hypotheses :
  let resps := long_resps 3000 (app_rsrc wit_loop_app) wit_loop_cfg (new_engine wit_loop_cfg None [] [])
                          (loop_inputs None (s2b ("1" ++ lf_s))) in
  ends_nl (s2b ("1" ++ lf_s))
  /\ resps = [mkResp true SOk (s2b "root") FOk; mkResp false SOk (s2b "bye see you") FOk]
  /\ all_go_on true resps = false
  /\ loop_prefix true resps = resps /\ prefix_stat true resps = LOk
  /\ PgInv wit_loop_cfg (e_v (new_engine wit_loop_cfg None [] [])) /\ 0 < c_out wit_loop_cfg
  /\ forallb (fun r => len (r_out r) <=? c_out wit_loop_cfg) resps = true.
Proof.
  cbv zeta.
  split; [right; exists (s2b "1"); reflexivity|].
  split; [vm_compute; reflexivity|]. split; [vm_compute; reflexivity|].
  split; [vm_compute; reflexivity|]. split; [vm_compute; reflexivity|].
  split; [apply new_engine_inv|].
  split; vm_compute; reflexivity.
Qed.

(* the unterminated tail: "1" without a line feed is dropped — the session stays at the root;
   with the line feed it is executed *)
Example C20loop_nonvacuous_tail_dropped :
  wit_loop_run None "1" = (s2b "root" ++ [LF], LOk, [s2b "root"], 5%nat)
  /\ wit_loop_run None "" = wit_loop_run None "1"
  /\ loop_lines (s2b "1") = ([], true)
  /\ loop_lines (s2b ("  " ++ tab_s ++ "1 " ++ cr_s ++ lf_s ++ lf_s ++ "7 7" ++ lf_s ++ "0"))
     = ([s2b "1"; []; s2b "7 7"], true)
  /\ wit_loop_run None ("  " ++ tab_s ++ "1 " ++ cr_s ++ lf_s ++ "0")
     = (s2b "root" ++ [LF] ++ s2b "bye see you" ++ [LF], LOk, [], 13%nat).
Proof. vm_compute. repeat split; reflexivity. Qed.

(* errors: a refused initial value is returned as it is and nothing is written; a refused line is
   an "unexpected termination" after the first page; an unmatched input is NOT an error: the
   catch node answers and the session goes on *)
Example C20loop_nonvacuous_errors :
  wit_loop_run (Some (s2b "!bad")) ("1" ++ lf_s) = ([], LErr EGen, [], 0%nat)
  /\ wit_loop_run None ("!bad" ++ lf_s ++ "1" ++ lf_s) = (s2b "root" ++ [LF], LTerm EGen, [s2b "root"], 5%nat)
  /\ fst (fst (fst (wit_loop_run None ("x" ++ lf_s ++ "x" ++ lf_s ++ "1" ++ lf_s))))
     = s2b "root" ++ [LF] ++ s2b "invalid input: 'x'" ++ [LF] ++ s2b "catch" ++ [LF] ++ s2b "root" ++ [LF]
       ++ s2b "bye see you" ++ [LF].
Proof. vm_compute. repeat split; reflexivity. Qed.

(* a Flush error ends Loop: corpus menu-sink at size 30, browsing past the last page; every
   chunk written is within 30 + 1 bytes *)
Example C20loop_nonvacuous_flush_error :
  let '(w, st, e) := eng_loop (app_rsrc wit_menu_sink) wit_cfg30 3000 (new_engine wit_cfg30 None [] []) None
                              (s2b ("11" ++ lf_s ++ "11" ++ lf_s ++ "22" ++ lf_s ++ "11" ++ lf_s ++ "11" ++ lf_s ++ "11" ++ lf_s)) in
  st = LErr EGen /\ len w = 29 + 1 + 24 + 1 + 17 + 1 + 24 + 1 + 17 + 1
  /\ map (fun r => len (resp_chunk r))
         (loop_prefix true (long_resps 3000 (app_rsrc wit_menu_sink) wit_cfg30 (new_engine wit_cfg30 None [] [])
                                       (loop_inputs None (s2b ("11" ++ lf_s ++ "11" ++ lf_s ++ "22" ++ lf_s ++ "11" ++ lf_s ++ "11" ++ lf_s ++ "11" ++ lf_s)))))
     = [30; 25; 18; 25; 18; 0].
Proof. vm_compute. repeat split; reflexivity. Qed.

(* strings.TrimSpace: Unicode white space is removed (NBSP, U+3000, U+2028), look-alikes are not
   (a lone C2; a truncated E2 80; a lone A0) *)
Example C20loop_nonvacuous_trim_space :
  trim_space [194;160;49;227;128;128;10] = [49]
  /\ trim_space [49;194;10] = [49;194]
  /\ trim_space [226;128;49;160;10] = [226;128;49;160]
  /\ trim_space [32;226;128;168;9;10] = []
  /\ trim_space (s2b (" 7 7 " ++ cr_s ++ lf_s)) = s2b "7 7".
Proof. vm_compute. repeat split; reflexivity. Qed.

(* the stored record after a session the engine ended (graceful end on the second line): no position,
   one empty cache scope, no pending code; after EOF on the first page: at the root with its code pending *)
Example C20loop_nonvacuous_stored :
  let run (reader : string) := eng_loop (app_rsrc wit_loop_app) wit_loop_cfg 3000 (loop_persisted_init wit_loop_cfg) None (s2b reader) in
  option_map (fun sn => (s_path (fst sn), c_frames (snd sn), s_code (fst sn))) (loop_stored wit_loop_cfg (run ("1" ++ lf_s ++ "0" ++ lf_s)%string))
    = Some ([], [[]], [])
  /\ option_map (fun sn => (s_path (fst sn), c_frames (snd sn))) (loop_stored wit_loop_cfg (run ""%string))
    = Some ([s2b "root"], [[]; []])
  /\ e_initd (snd (run ("1" ++ lf_s)%string)) = true.
Proof. vm_compute. repeat split; reflexivity. Qed.

Print Assumptions C20loop_output_is_requests.
Print Assumptions C20loop_stored_is_requests.
Print Assumptions C20loop_nonvacuous_stored.
Print Assumptions C20loop_long_resps_are_long_responses.
Print Assumptions C20loop_requests_are_driver_requests.
Print Assumptions C20loop_requests_are_prefix.
Print Assumptions C20loop_engine_is_requests.
Print Assumptions C20loop_every_chunk_fits.
Print Assumptions C20loop_written_bound_partial.
Print Assumptions C20loop_harness_engine_inv.
Print Assumptions C20loop_stops_at_end.
Print Assumptions C20loop_stops_at_cont_false.
Print Assumptions C20loop_rest_stops.
Print Assumptions C20loop_drops_unterminated_tail.
Print Assumptions C20loop_reader_decomposition.
Print Assumptions C20loop_ignores_tail.
Print Assumptions C20loop_lines_of_concatenation.
Print Assumptions C20loop_trim_space_ends.
Print Assumptions C20loop_nonvacuous_graceful_end.
Print Assumptions C20loop_nonvacuous_stop_hypotheses.
Print Assumptions C20loop_nonvacuous_tail_dropped.
Print Assumptions C20loop_nonvacuous_errors.
Print Assumptions C20loop_nonvacuous_flush_error.
Print Assumptions C20loop_nonvacuous_trim_space.
