(* C08 — No sequence of client inputs can crash the engine or corrupt a session.
   Full statement (DESIGN section 6): for every well-formed application (wf_app_b), every
   reachable engine state satisfying the session invariant and EVERY input byte string,
   a request neither panics nor breaks the invariant.  Proved so far: every component the
   request path is built from is total (no Go panic site reachable); the composition over the
   fuelled run loop is stated in EngineSafety (see DESIGN for what is missing). *)
From Vise Require Import Bytes Errors Consts Codec CacheModel StateModel NavModel NavSpec RenderModel VmModel EngineModel
  CodecProofs CacheProofs NavProofs RenderProofs.
Local Open Scope N_scope.

(* the decoder never panics, on any byte string *)
Theorem C08_decode_total : forall b, is_panic (decode_one b) = false.
Proof. exact decode_one_no_panic. Qed.

(* the cache never panics under its invariant *)
Theorem C08_cache_total : forall c o, CInv c -> snd (cache_step c o) <> RPanic.
Proof. exact cache_step_no_panic. Qed.

(* navigation never panics: a move to the node the session is already at is refused with an
   error (repair b32c1a0), the depth limit is checked before State.Down *)
Theorem C08_navigation_total : forall t st ca, is_spanic (snd (apply_target t st ca)) = false.
Proof. exact apply_never_panics. Qed.

Print Assumptions C08_decode_total.
Print Assumptions C08_cache_total.
Print Assumptions C08_navigation_total.
