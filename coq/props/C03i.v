(* C03 (interim, handler level) — Client input is routed by the first matching INCMP, once.
   The block/run-level theorems are being added in props/C03.v. *)
From Vise Require Import Bytes Errors Consts Codec CacheModel StateModel NavModel RenderModel VmModel VmProofs.
Local Open Scope N_scope.

(* before any match: an INCMP whose selector is neither the input nor the wildcard moves nothing *)
Theorem C03_no_match_no_move : forall rs sep dest sel b v input,
  getf (v_st v) FLAG_INMATCH = false -> s_input (v_st v) = Some input ->
  bytes_eqb sel input = false -> bytes_eqb sel star = false ->
  run_incmp rs sep dest sel b v
  = (vlog (vset_st v (setf (v_st v) FLAG_READIN)) (EvInCmp dest sel false), b, SOk).
Proof. exact run_incmp_no_match. Qed.

(* after a match was consumed, an INCMP with another selector (the wildcard included) moves nothing *)
Theorem C03_after_match_other_selector_ignored : forall rs sep dest sel b v input,
  getf (v_st v) FLAG_INMATCH = true -> getf (v_st v) FLAG_READIN = false ->
  s_input (v_st v) = Some input -> bytes_eqb sel input = false ->
  run_incmp rs sep dest sel b v = (vlog v (EvInCmp dest sel false), b, SOk).
Proof. exact run_incmp_after_match_other. Qed.

(* "previous" on the first page turned the match into no-match: every later INCMP is skipped *)
Theorem C03_skipped_after_index_error : forall rs sep dest sel b v,
  getf (v_st v) FLAG_INMATCH = true -> getf (v_st v) FLAG_READIN = true ->
  run_incmp rs sep dest sel b v = (vlog v (EvInCmp dest sel false), b, SOk).
Proof. exact run_incmp_skipped. Qed.

(* nothing matched and the code ran out: the catch node with the invalid-input message *)
Theorem C03_fallthrough_goes_to_catch : forall v,
  getf (v_st v) FLAG_READIN = true -> getf (v_st v) FLAG_TERMINATE = false ->
  where_sym (v_st v) <> [] -> bytes_eqb (where_sym (v_st v)) catch_sym = false ->
  dead_check v = (vset_pg v (page_with_error (v_pg v) (Some (msg_invalid_input (s_input (v_st v))))), move_catch_code, SOk).
Proof. exact dead_check_catch. Qed.

Print Assumptions C03_no_match_no_move.
Print Assumptions C03_after_match_other_selector_ignored.
Print Assumptions C03_skipped_after_index_error.
Print Assumptions C03_fallthrough_goes_to_catch.
