(* C16 — The assembler emits exactly the instructions that were written.
   Property theorems only; each is closed by a lemma from proofs/AsmProofs.v.

   Full statement (refuted on the code as it is, see the four C16_refuted_* theorems):

     forall src bs, valid_src src -> asm src = Ok bs -> parse_all bs = Ok (expand src)

   where src is a token-level source (opcode word + argument texts per line), valid_src says every
   line follows the documented form of instructions.texi (batch lines DOWN/UP/NEXT/PREVIOUS only
   as the final block), asm is the model of asm.Parse, parse_all the model of the VM's decoder
   (C14/C15) and expand the independent reading: one instruction per line with the arguments as
   written (numbers in decimal), the batch block expanded to MOUT/MNEXT/MPREV ... HALT ... INCMP.

   What is proved is the statement outside four decidable classes of sources, each of which
   contains a reproduced counterexample:
     in_K_numnorm      a selector of several digits with a leading zero      (00 -> 0, 010 -> 8)
     in_K_digitprefix  a selector that starts with digits and contains a letter (1a -> 1 or a)
     in_K_longsym      MOVE/MAP/RELOAD or a batch line with an argument > 255 bytes
     in_K_octal        a size or signal with a leading zero and value >= 8     (010 -> 8)
   lossless_selectors = not numnorm and not digitprefix; short_syms = not longsym;
   decimal_sizes = not octal. *)
From Vise Require Import Bytes Errors Consts Codec AsmModel AsmProofs.
Local Open Scope N_scope.

(* for ALL sources (induction over the lines, batcher state as invariant), composed with the C14
   round trip: what the assembler emits decodes to exactly what was written *)
Theorem C16_asm_fidelity_partial : forall src bs,
  valid_src src ->
  lossless_selectors src = true -> short_syms src = true -> decimal_sizes src = true ->
  asm src = Ok bs ->
  parse_all bs = Ok (expand src).
Proof. exact asm_fidelity_partial_lemma. Qed.

(* the same on the byte level: the output is the concatenation of the encodings of the written
   instructions, all of them encodable, at least one *)
Theorem C16_emits_expansion : forall src bs,
  valid_src src ->
  lossless_selectors src = true -> short_syms src = true -> decimal_sizes src = true ->
  asm src = Ok bs ->
  bs = encode_prog (expand src) /\ Forall wf_instr (expand src) /\ expand src <> [].
Proof. exact asm_emits_expansion_lemma. Qed.

(* every combination of batch lines: the MOUT/MNEXT/MPREV lines in order, one HALT, the INCMP
   lines in order (batch_all gives the two lists line by line as in the table of instructions.texi) *)
Theorem C16_batch_expansion : forall ls pre post bs,
  ls <> [] -> batch_all ls = Some (pre, post) ->
  lossless_selectors ls = true -> short_syms ls = true ->
  asm ls = Ok bs ->
  bs = encode_prog (pre ++ IHalt :: post) /\ parse_all bs = Ok (pre ++ IHalt :: post)%list.
Proof. exact batch_expansion_lemma. Qed.

(* K-C16-numnorm: INCMP foo 00 is emitted as INCMP foo 0 *)
Theorem C16_refuted_numnorm :
  exists src bs, valid_src src /\ in_K_numnorm src = true
    /\ in_K_digitprefix src = false /\ short_syms src = true /\ decimal_sizes src = true
    /\ asm src = Ok bs
    /\ parse_all bs = Ok [IInCmp (s2b "foo") (s2b "0")]
    /\ expand src = [IInCmp (s2b "foo") (s2b "00")].
Proof. exact refuted_numnorm_lemma. Qed.

(* K-C16-digitprefix: INCMP foo 1a is emitted as INCMP foo 1 (letters dropped);
   DOWN foo 1a to_foo as MOUT to_foo a / HALT / INCMP foo a (digits dropped) *)
Theorem C16_refuted_digitprefix :
  (exists src bs, valid_src src /\ in_K_digitprefix src = true
    /\ in_K_numnorm src = false /\ short_syms src = true /\ decimal_sizes src = true
    /\ asm src = Ok bs
    /\ parse_all bs = Ok [IInCmp (s2b "foo") (s2b "1")]
    /\ expand src = [IInCmp (s2b "foo") (s2b "1a")])
  /\ (exists src bs, valid_src src /\ in_K_digitprefix src = true
    /\ in_K_numnorm src = false /\ short_syms src = true /\ decimal_sizes src = true
    /\ asm src = Ok bs
    /\ parse_all bs = Ok [IMOut (s2b "to_foo") (s2b "a"); IHalt; IInCmp (s2b "foo") (s2b "a")]
    /\ expand src = [IMOut (s2b "to_foo") (s2b "1a"); IHalt; IInCmp (s2b "foo") (s2b "1a")]).
Proof. exact refuted_digitprefix_lemma. Qed.

(* K-C16-longsym: MOVE <256 bytes> / HALT is emitted as 00 06 00 07, which does not decode *)
Theorem C16_refuted_longsym :
  exists src, valid_src src /\ in_K_longsym src = true
    /\ lossless_selectors src = true /\ decimal_sizes src = true
    /\ asm src = Ok [0; 6; 0; 7]
    /\ parse_all [0; 6; 0; 7] = Err EGen
    /\ expand src = [IMove (rep 97 256); IHalt].
Proof. exact refuted_longsym_lemma. Qed.

(* K-C16-octal: LOAD foo 010 is emitted as LOAD foo 8 *)
Theorem C16_refuted_octal :
  exists src bs, valid_src src /\ in_K_octal src = true
    /\ lossless_selectors src = true /\ short_syms src = true
    /\ asm src = Ok bs
    /\ parse_all bs = Ok [ILoad (s2b "foo") 8]
    /\ expand src = [ILoad (s2b "foo") 10].
Proof. exact refuted_octal_lemma. Qed.

(* non-vacuity: a source with every documented opcode word, digit / letter / mixed / wildcard
   selectors, a 255-byte symbol, sizes 0 and 2^32-1 and all four batch words meets every
   hypothesis, is assembled, and decodes to the 23 instructions its 18 lines denote *)
Local Open Scope string_scope.
Example C16_nonvacuous :
  let src := [LS "LOAD" ["foo"; "0"]; L (s2b "LOAD") [rep 97 255; s2b "4294967295"]; LS "RELOAD" ["foo"];
              LS "MAP" ["foo"]; LS "CATCH" ["_"; "65536"; "1"]; LS "CROAK" ["256"; "0"]; LS "MSINK" [];
              LS "MOUT" ["to_bar"; "10"]; LS "MNEXT" ["fwd"; "a1B"]; LS "MPREV" ["back"; "x"]; LS "HALT" [];
              LS "INCMP" ["bar"; "10"]; LS "INCMP" ["^"; "*"]; LS "MOVE" ["."];
              LS "DOWN" ["foo"; "0"; "to_foo"]; LS "UP" ["b2"; "back"]; LS "NEXT" ["11"; "fwd"];
              LS "PREVIOUS" ["22"; "back"]] in
  valid_srcb src = true /\ lossless_selectors src = true /\ short_syms src = true /\ decimal_sizes src = true
  /\ (exists bs, asm src = Ok bs /\ parse_all bs = Ok (expand src))
  /\ List.length (expand src) = 23%nat.
Proof. vm_compute. repeat split. eexists. split; reflexivity. Qed.

Print Assumptions C16_asm_fidelity_partial.
Print Assumptions C16_emits_expansion.
Print Assumptions C16_batch_expansion.
Print Assumptions C16_refuted_numnorm.
Print Assumptions C16_refuted_digitprefix.
Print Assumptions C16_refuted_longsym.
Print Assumptions C16_refuted_octal.
