(* C20 (interim) — Session end restarts cleanly; termination stays blocked. *)
From Vise Require Import Bytes Errors Consts Codec CacheModel StateModel NavModel RenderModel VmModel VmProofs.
Local Open Scope N_scope.

(* running out of code outside input handling sets TERMINATE *)
Theorem C20_abnormal_end_sets_terminate : forall v,
  getf (v_st v) FLAG_READIN = false ->
  dead_check v = (vset_st v (setf (v_st v) FLAG_TERMINATE), [], SOk).
Proof. exact dead_check_terminates. Qed.

(* and from then on every run is blocked *)
Theorem C20_terminated_stays_blocked : forall fuel rs sep lang b v,
  getf (v_st v) FLAG_TERMINATE = true -> run (S fuel) rs sep lang b v = (v, [], SOk).
Proof. exact run_terminate_blocks. Qed.

Print Assumptions C20_abnormal_end_sets_terminate.
Print Assumptions C20_terminated_stays_blocked.
