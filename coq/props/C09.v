(* C09 — The symbol cache enforces its limits and accounts for every byte. *)
From Coq Require Import Lia.
From Vise Require Import Bytes Errors CacheModel CacheProofs.
Local Open Scope N_scope.

(* Reachable states: any sequence of Add/Update/Get/Push/Pop/Reset/Last from a fresh cache of
   any capacity (0 = unlimited).  op_bounded excludes only the uint32 wrap of the usage counter
   (value length + capacity >= 2^32, i.e. more than 4 GiB). *)
Theorem C09_every_reachable_state : forall cap ops,
  cap < 4294967296 -> Forall (op_bounded cap) ops ->
  let c := cache_run (new_cache cap) ops in
  (* the reported used size is the sum of the stored values' lengths (as a uint32) *)
  c_use c = w32 (total_bytes (c_frames c))
  (* the total never exceeds the configured capacity *)
  /\ (0 < cap -> total_bytes (c_frames c) <= cap /\ c_use c = total_bytes (c_frames c))
  (* a symbol is defined in at most one scope *)
  /\ NoDup (all_keys (c_frames c))
  (* every stored value has a recorded limit and respects it *)
  /\ (forall f k v, In f (c_frames c) -> alookup k f = Some v ->
        exists l, alookup k (c_sizes c) = Some l /\ (0 < l -> len v <= l)).
Proof. exact cache_reachable_lemma. Qed.

(* a rejected operation leaves the cache unchanged — including Update, which blanks the old
   value and releases its bytes before the capacity check and must put both back *)
Theorem C09_rejected_is_noop : forall c o e,
  CInv c -> op_bounded (c_size c) o -> snd (cache_step c o) = RErr e -> fst (cache_step c o) = c.
Proof. exact cache_rejected_noop. Qed.

(* leaving a scope releases exactly the bytes of the symbols it held, and those symbols
   (and their size entries) are gone *)
Theorem C09_pop_releases_exactly : forall c c',
  CInv c -> cache_pop c = Ok c' ->
  exists pre top, c_frames c = pre ++ [top]
    /\ c_frames c' = (match pre with [] => [[]] | _ => pre end)
    /\ total_bytes (c_frames c') + frame_bytes top = total_bytes (c_frames c)
    /\ (forall k, In k (map fst top) -> ~ In k (all_keys (c_frames c')) /\ alookup k (c_sizes c') = None).
Proof. exact cache_pop_releases_lemma. Qed.

(* over-limit values are rejected, for every length (no 16-bit truncation) *)
Theorem C09_over_limit_rejected : forall c k v l,
  0 < l -> l < len v -> cache_add c k v l = Err EGen.
Proof. exact cache_over_limit_lemma. Qed.

Theorem C09_no_panic : forall c o, CInv c -> snd (cache_step c o) <> RPanic.
Proof. exact cache_step_no_panic. Qed.

(* read-your-write: after a successful Add the symbol reads back as exactly the value added, it
   was not readable before (Add never overwrites), and every other symbol reads as it did *)
Theorem C09_add_then_get : forall c k v l c',
  CInv c -> cache_add c k v l = Ok c' ->
  cache_get c' k = Ok v
  /\ (forall k2, k2 <> k -> cache_get c' k2 = cache_get c k2)
  /\ cache_get c k = Err EGen.
Proof. exact cache_add_get_lemma. Qed.

(* non-vacuity: a history with a rejected over-limit add (65539 bytes under limit 10), a
   capacity rejection, a rejected update (rolled back) and a pop reaches a state with two live symbols *)
Example C09_nonvacuous :
  let ops := [OAdd (s2b "foo") (s2b "abc") 10; OPush; OAdd (s2b "bar") (rep 120 65539) 10;
              OAdd (s2b "bar") (s2b "0123456") 0; OAdd (s2b "baz") (s2b "x") 0;
              OUpdate (s2b "foo") (s2b "abcd"); OPop; OAdd (s2b "q") (s2b "zz") 3] in
  let c := cache_run (new_cache 10) ops in
  forallb (fun o => match o with OAdd _ v _ | OUpdate _ v => len v + 10 <? 4294967296 | _ => true end) ops = true
  /\ c_use c = 5 /\ c_frames c = [[(s2b "foo", s2b "abc"); (s2b "q", s2b "zz")]].
Proof. vm_compute. auto. Qed.

Print Assumptions C09_every_reachable_state.
Print Assumptions C09_rejected_is_noop.
Print Assumptions C09_pop_releases_exactly.
Print Assumptions C09_over_limit_rejected.
Print Assumptions C09_no_panic.
Print Assumptions C09_add_then_get.
